// C03 — parsing is total: any text yields a program or an error, never a
// crash or hang.
package c03

import (
	"encoding/json"
	"fmt"
	"strconv"
	"strings"
	"testing"

	"verif/corpus"
	"verif/internal/vk"

	plush "github.com/gobuffalo/plush/v5"
	"github.com/gobuffalo/plush/v5/parser"
	"pgregory.net/rapid"
)

func TestMain(m *testing.M) { vk.Main(m) }

type Case struct {
	Src   vk.Text `json:"src"`
	Frame string  `json:"frame,omitempty"`
}

const maxLen = 4096

// oracle: every parsing entry point returns (value, nil) or (_, err); no panic,
// no token-budget trip. A successfully parsed program must also print.
func checkSrc(r *vk.Run, src, frame string) *vk.Fail {
	c := Case{Src: vk.Text(src), Frame: frame}
	defer r.Watch("parse", c)()
	var perr error
	res := vk.Safe(func() (string, error) {
		prog, err := parser.Parse(src)
		perr = err
		if err == nil && prog != nil {
			_ = prog.String()
			_ = prog.InnerText()
		}
		return "", nil
	})
	if res.Panicked() {
		return &vk.Fail{Kind: "parse", Case: c, Msg: fmt.Sprintf("parser.Parse(%q): %s", src, res)}
	}
	var terr error
	res = vk.Safe(func() (string, error) {
		t, err := plush.Parse(src)
		terr = err
		if err == nil && t == nil {
			return "", fmt.Errorf("nil template and nil error")
		}
		return "", nil
	})
	if res.Panicked() {
		return &vk.Fail{Kind: "parse", Case: c, Msg: fmt.Sprintf("plush.Parse(%q): %s", src, res)}
	}
	if res.Err != nil {
		return &vk.Fail{Kind: "parse", Case: c, Msg: fmt.Sprintf("plush.Parse(%q): %v", src, res.Err)}
	}
	if (perr == nil) != (terr == nil) {
		return &vk.Fail{Kind: "parse", Case: c, Msg: fmt.Sprintf("parser.Parse and plush.Parse disagree on %q: %v vs %v", src, perr, terr)}
	}
	// evidence
	nt := ""
	if strings.Contains(src, "<%") && (perr != nil || unbalanced(src)) {
		nt = src
	}
	class := "ok"
	if perr != nil {
		class = "error"
	}
	if frame != "" {
		class = frame + "/" + class
	}
	r.Count(nt, class)
	if nt != "" {
		r.Sample(func() interface{} {
			e := ""
			if perr != nil {
				e = perr.Error()
			}
			return map[string]interface{}{"src": vk.Text(src), "frame": frame, "error": e}
		})
	}
	return nil
}

func unbalanced(s string) bool {
	return strings.Count(s, "<%") != strings.Count(s, "%>") ||
		strings.Count(s, "(") != strings.Count(s, ")") ||
		strings.Count(s, "{") != strings.Count(s, "}") ||
		strings.Count(s, "[") != strings.Count(s, "]") ||
		strings.Count(s, "\"")%2 == 1 || strings.Count(s, "`")%2 == 1
}

// ---- vocabulary and framings for the exhaustive token-sequence space ----

var vocab = []string{
	"let", "fn", "func", "if", "else", "for", "in", "return", "break", "continue", "true", "false", "nil",
	"a", "a.b", "a-b", "1", "1.5", "1.2.3", `"s"`, "`b`", `"`, "`", "#", "@", ".", "<%", "<%=", "<%#", "%>",
	"=", "==", "!=", "!", "+", "-", "*", "/", "<", "<=", ">", ">=", "~=", "&&", "||", "&", "|",
	",", ";", ":", "(", ")", "{", "}", "[", "]", "\\", "\n",
}

var frames = []struct{ name, pre, post string }{
	{"closed", "<% ", " %>"},
	{"emit", "<%= ", " %>"},
	{"open", "<% ", ""},
	{"emit-open", "<%= ", ""},
	{"comment", "<%# ", " %>"},
	{"comment-open", "<%# ", ""},
	{"nested-opener", "<% <% ", " %>"},
	{"in-if", "<%= if (true) { %> ", " <% } %>"},
	{"in-for", "<%= for (v) in a { ", " } %>"},
	{"in-call", "<%= f(", ") %>"},
	{"bare", "", ""},
	{"text-around", "x\\<% ", " %>y<%"},
}

func seq(idx int64, k int) string {
	n := int64(len(vocab))
	parts := make([]string, k)
	for j := k - 1; j >= 0; j-- {
		parts[j] = vocab[idx%n]
		idx /= n
	}
	return strings.Join(parts, " ")
}

func pow(b, e int) int64 {
	x := int64(1)
	for i := 0; i < e; i++ {
		x *= int64(b)
	}
	return x
}

// ---- random generators ---------------------------------------------------

var hostile = []string{
	"<%", "<%=", "<%#", "%>", "\\<%", "\\\\<%", "\\<", "\\", "\"", "`", "#", "{", "}", "(", ")", "[", "]",
	"if (", "for (", "fn(", "else", "else if (", "let ", "return ", ".", "..", "1.", ".5", "a.", ".a", "a[", "a(", "a.b(", "](", ")[", ")(", "){", "}(",
	":", ",", ";", "=", "==", "\x00", "\xff", "é", "\r\n", "\n", "\t", "~", "~=", "&", "|", "@", "$", "99999999999999999999", "1e5", "0x1", "-", "--", "a-", "-a",
}

func genSoup(t *rapid.T) string {
	n := rapid.IntRange(0, 60).Draw(t, "n")
	var sb strings.Builder
	if rapid.IntRange(0, 3).Draw(t, "open") > 0 {
		sb.WriteString(rapid.SampledFrom([]string{"<% ", "<%= ", "<%# ", "<%"}).Draw(t, "opener"))
	}
	for i := 0; i < n; i++ {
		if rapid.IntRange(0, 9).Draw(t, "h") == 0 {
			sb.WriteString(rapid.SampledFrom(hostile).Draw(t, "hostile"))
		} else {
			sb.WriteString(rapid.SampledFrom(vocab).Draw(t, "tok"))
		}
		if rapid.IntRange(0, 3).Draw(t, "sp") > 0 {
			sb.WriteByte(' ')
		}
	}
	if rapid.IntRange(0, 2).Draw(t, "close") > 0 {
		sb.WriteString(" %>")
	}
	return sb.String()
}

func genMutant(t *rapid.T, corp []string) string {
	s := rapid.SampledFrom(corp).Draw(t, "base")
	ops := rapid.IntRange(1, 4).Draw(t, "ops")
	for i := 0; i < ops && len(s) > 0; i++ {
		p := rapid.IntRange(0, len(s)).Draw(t, "pos")
		switch rapid.IntRange(0, 6).Draw(t, "op") {
		case 0: // prefix
			s = s[:p]
		case 1: // suffix
			s = s[p:]
		case 2: // delete a span
			q := p + rapid.IntRange(0, 8).Draw(t, "len")
			if q > len(s) {
				q = len(s)
			}
			s = s[:p] + s[q:]
		case 3: // duplicate a span
			q := p + rapid.IntRange(1, 12).Draw(t, "len")
			if q > len(s) {
				q = len(s)
			}
			s = s[:q] + s[p:q] + s[q:]
		case 4: // insert hostile fragment
			s = s[:p] + rapid.SampledFrom(hostile).Draw(t, "frag") + s[p:]
		case 5: // swap two bytes
			if len(s) >= 2 {
				q := rapid.IntRange(0, len(s)-1).Draw(t, "pos2")
				if p == len(s) {
					p--
				}
				b := []byte(s)
				b[p], b[q] = b[q], b[p]
				s = string(b)
			}
		case 6: // replace one byte
			if p < len(s) {
				b := []byte(s)
				b[p] = rapid.Byte().Draw(t, "byte")
				s = string(b)
			}
		}
	}
	if len(s) > maxLen {
		s = s[:maxLen]
	}
	return s
}

var nestUnits = []struct{ open, close string }{
	{"(", ")"}, {"[", "]"}, {"{a: ", "}"}, {"f(", ")"}, {"a[", "]"}, {"!", ""}, {"-", ""},
	{"if (true) { ", " }"}, {"if (true) { %>x<% ", " %>y<% }"}, {"for (v) in a { ", " }"}, {"fn(x) { ", " }"},
	{"f() { ", " }"}, {"<%= ", " %>"}, {"1 + ", ""}, {"a.b(", ").c"}, {"[1, ", "]"}, {"if (", ") { }"}, {"else { ", " }"},
}

func genNest(t *rapid.T) string {
	depth := rapid.IntRange(1, 256).Draw(t, "depth")
	mix := rapid.Bool().Draw(t, "mix")
	u := rapid.IntRange(0, len(nestUnits)-1).Draw(t, "unit")
	closeN := depth
	switch rapid.IntRange(0, 3).Draw(t, "closing") {
	case 0:
		closeN = 0
	case 1:
		closeN = rapid.IntRange(0, depth).Draw(t, "closeN")
	}
	var opens, closes []string
	for i := 0; i < depth; i++ {
		k := u
		if mix {
			k = rapid.IntRange(0, len(nestUnits)-1).Draw(t, "u")
		}
		opens = append(opens, nestUnits[k].open)
		closes = append(closes, nestUnits[k].close)
	}
	var sb strings.Builder
	sb.WriteString(rapid.SampledFrom([]string{"<% ", "<%= ", "<% let x = "}).Draw(t, "opener"))
	for _, o := range opens {
		sb.WriteString(o)
	}
	sb.WriteString(rapid.SampledFrom([]string{"1", "a", "", "\"s\"", "%>"}).Draw(t, "core"))
	for i := 0; i < closeN; i++ {
		sb.WriteString(closes[len(closes)-1-i])
	}
	if rapid.Bool().Draw(t, "end") {
		sb.WriteString(" %>")
	}
	s := sb.String()
	if len(s) > maxLen {
		s = s[:maxLen]
	}
	return s
}

// ---- the test ------------------------------------------------------------

const rule = "inputs: (E) every sequence of <=k vocabulary tokens (k = 2 quick, 3 thorough, and 4 over the 24 most structural spellings in the thorough tier) in 12 tag framings; (R) random token soup <=60 tokens, byte-level mutations (prefix, suffix, delete, duplicate, insert hostile fragment, swap, replace) of 277 templates harvested from the repository's tests, nesting generators to depth 256; (F, thorough) native coverage-guided fuzzing. Oracle: parser.Parse / plush.Parse return a value or an error, never panic, never exceed the lexer token budget (32*len+65536 NextToken calls) and program.String() prints. Non-trivial = input contains a tag opener and is unbalanced/truncated or is rejected with an error; distinct by input text."

func setup(t *testing.T) *vk.Run {
	r := vk.Start(t, "C03", rule,
		"non-termination is recognised by the H2 token budget (build tag verif) or by the CPU-time watchdog; a parser loop that neither pulls tokens nor burns CPU would be missed",
		"inputs are capped at 4 KiB so legitimate recursion depth cannot exhaust the goroutine stack",
		"evaluation of parsed programs is C04's concern and is not exercised here")
	r.Replayer("parse", func(raw json.RawMessage) *vk.Fail {
		var c Case
		if f := vk.Decode(raw, &c); f != nil {
			return f
		}
		return checkSrc(r, string(c.Src), c.Frame)
	})
	r.Replayer("gofuzz", func(raw json.RawMessage) *vk.Fail {
		var c struct {
			Target     string `json:"target"`
			CorpusFile string `json:"corpus_file"`
		}
		if f := vk.Decode(raw, &c); f != nil {
			return f
		}
		src, err := parseGoFuzzFile(c.CorpusFile)
		if err != nil {
			return &vk.Fail{Kind: "decode", Msg: err.Error()}
		}
		if len(src) > maxLen {
			src = src[:maxLen]
		}
		return checkSrc(r, src, "fuzz")
	})
	return r
}

func parseGoFuzzFile(s string) (string, error) {
	for _, l := range strings.Split(s, "\n") {
		l = strings.TrimSpace(l)
		for _, p := range []string{"[]byte(", "string("} {
			if strings.HasPrefix(l, p) && strings.HasSuffix(l, ")") {
				return strconv.Unquote(l[len(p) : len(l)-1])
			}
		}
	}
	return "", fmt.Errorf("no value line in fuzz corpus file")
}

func TestReplay(t *testing.T) {
	r := setup(t)
	r.ReplayEnv()
}

func TestProp(t *testing.T) {
	r := setup(t)
	defer r.Finish()
	r.ReplayCommitted()

	// E: token sequences
	k := r.Pick(2, 3)
	for kk := 0; kk <= k; kk++ {
		n := pow(len(vocab), kk)
		total := n * int64(len(frames))
		r.Subspace(fmt.Sprintf("token sequences of length %d x %d framings", kk, len(frames)), total, true)
		r.Parallel(total, 0, func(i int64) {
			fr := frames[i%int64(len(frames))]
			body := seq(i/int64(len(frames)), kk)
			r.Check(checkSrc(r, fr.pre+body+fr.post, fr.name))
		})
	}
	// E (thorough): sequences of 4 tokens over the 24 most structural spellings
	if r.Thorough() {
		core := []string{"if", "else", "for", "in", "fn", "let", "return", "break", "a", "1", `"s"`, "(", ")", "{", "}", "[", "]", ",", ":", ".", "=", "<%", "<%=", "%>"}
		nc := int64(len(core))
		total := nc * nc * nc * nc * int64(len(frames))
		r.Subspace(fmt.Sprintf("token sequences of length 4 over %d structural spellings x %d framings", nc, len(frames)), total, true)
		r.Parallel(total, 0, func(i int64) {
			fr := frames[i%int64(len(frames))]
			j := i / int64(len(frames))
			parts := make([]string, 4)
			for k := 3; k >= 0; k-- {
				parts[k] = core[j%nc]
				j /= nc
			}
			r.Check(checkSrc(r, fr.pre+strings.Join(parts, " ")+fr.post, fr.name))
		})
	}
	// E: every prefix and every suffix of every harvested template
	corp := corpus.Templates()
	var cuts int64
	for ti, s := range corp {
		if !r.Mine(int64(ti)) {
			continue
		}
		for p := 0; p <= len(s); p++ {
			r.Check(checkSrc(r, s[:p], "prefix"))
			r.Check(checkSrc(r, s[p:], "suffix"))
			cuts += 2
		}
	}
	r.Subspace("every prefix and suffix of the harvested templates", cuts, true)

	// R
	r.Rapid("soup", r.Pick(4000, 60000), func(t *rapid.T) *vk.Fail {
		return checkSrc(r, genSoup(t), "soup")
	})
	r.Rapid("mutants", r.Pick(4000, 60000), func(t *rapid.T) *vk.Fail {
		return checkSrc(r, genMutant(t, corp), "mutant")
	})
	r.Rapid("nesting", r.Pick(1500, 20000), func(t *rapid.T) *vk.Fail {
		return checkSrc(r, genNest(t), "nest")
	})
}

// FuzzParse is the native coverage-guided target (thorough tier only).
func FuzzParse(f *testing.F) {
	for _, s := range corpus.Templates() {
		f.Add([]byte(s))
	}
	for _, h := range hostile {
		f.Add([]byte("<% " + h + " %>"))
		f.Add([]byte("a" + h))
	}
	f.Fuzz(func(t *testing.T, b []byte) {
		if len(b) > maxLen {
			b = b[:maxLen]
		}
		src := string(b)
		res := vk.Safe(func() (string, error) {
			prog, err := parser.Parse(src)
			if err == nil && prog != nil {
				_ = prog.String()
			}
			return "", nil
		})
		if res.Panicked() {
			t.Fatalf("parser.Parse(%q): %s", src, res)
		}
	})
}
