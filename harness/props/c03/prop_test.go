// C03 — parsing is total: any text yields a program or an error, never a
// crash or hang.
package c03

import (
	"encoding/json"
	"fmt"
	"hash/fnv"
	"strconv"
	"strings"
	"sync/atomic"
	"syscall"
	"testing"
	"time"

	"verif/corpus"
	"verif/internal/vk"

	plush "github.com/gobuffalo/plush/v5"
	"github.com/gobuffalo/plush/v5/lexer"
	"github.com/gobuffalo/plush/v5/parser"
	"github.com/gobuffalo/plush/v5/token"
	"pgregory.net/rapid"
)

func TestMain(m *testing.M) { vk.Main(m) }

type Case struct {
	Src   vk.Text `json:"src"`
	Frame string  `json:"frame,omitempty"`
}

// CachedCase: sources parsed one after the other through plush.Parse with the
// template cache switched on (state kept between calls, keyed by the input).
type CachedCase struct {
	Srcs []vk.Text `json:"srcs"`
}

const (
	maxLen     = 4096      // random phases
	maxLenDeep = 64 * 1024 // enumerated nesting / chain boundaries and the "big" phase
)

// oracle: every parsing entry point returns (value, nil) or (_, err); no panic,
// no token-budget trip. A successfully parsed program must also print; an
// error must have a text; asking the same template again gives the same
// answer; Render and Exec of an input that does not parse return an error.
func checkSrc(r *vk.Run, src, frame string) *vk.Fail {
	c := Case{Src: vk.Text(src), Frame: frame}
	defer r.Watch("parse", c)()
	bad := func(format string, a ...interface{}) *vk.Fail {
		return &vk.Fail{Kind: "parse", Case: c, Msg: fmt.Sprintf(format, a...)}
	}
	// the repeated-call and Render checks cost five more parses: they are made
	// for one source text in eight, chosen by the text itself (so a replay
	// makes the same choice)
	extended := textHash(src)%8 == 0

	// the lexer alone reaches a lasting EOF (a NUL inside a tag yields an early
	// EOF token, so "lasting" = two in a row) without exhausting the budget
	res := vk.Safe(func() (string, error) {
		l := lexer.New(src)
		eofs := 0
		for eofs < 2 {
			if l.NextToken().Type == token.EOF {
				eofs++
			} else {
				eofs = 0
			}
		}
		return "", nil
	})
	if res.Panicked() {
		return bad("lexer.New(%q).NextToken() until EOF: %s", src, res)
	}

	var perr error
	res = vk.Safe(func() (string, error) {
		prog, err := parser.Parse(src)
		perr = err
		if err == nil {
			if prog == nil {
				return "", fmt.Errorf("nil program and nil error")
			}
			_ = prog.String()
			if len(src) <= maxLen { // the same printers again: skipped where printing is expensive
				_ = prog.InnerText()
			}
			return "", nil
		}
		msg := err.Error()
		if strings.TrimSpace(msg) == "" {
			return "", fmt.Errorf("error value with an empty text")
		}
		if strings.Contains(msg, "(PANIC=") && !strings.Contains(src, "PANIC=") {
			return "", fmt.Errorf("a panic was swallowed while formatting the error: %s", msg)
		}
		return "", nil
	})
	if res.Panicked() {
		return bad("parser.Parse(%q): %s", src, res)
	}
	if res.Err != nil {
		return bad("parser.Parse(%q): %v", src, res.Err)
	}

	var terr error
	res = vk.Safe(func() (string, error) {
		t, err := plush.Parse(src)
		terr = err
		if t == nil {
			if err == nil {
				return "", fmt.Errorf("nil template and nil error")
			}
			return "", nil
		}
		if !extended {
			return "", nil
		}
		// "can be called many times": the answer does not change
		if err2 := t.Parse(); (err2 == nil) != (err == nil) {
			return "", fmt.Errorf("plush.Parse said %v, Template.Parse on the same template then said %v", err, err2)
		}
		if err3 := t.Clone().Parse(); (err3 == nil) != (err == nil) {
			return "", fmt.Errorf("plush.Parse said %v, Parse on a Clone of the template said %v", err, err3)
		}
		if err != nil {
			// nothing is evaluated: the template has no program
			if _, xerr := t.Exec(plush.NewContext()); xerr == nil {
				return "", fmt.Errorf("plush.Parse said %v, but Exec of that template returned no error", err)
			}
		}
		return "", nil
	})
	if res.Panicked() {
		return bad("plush.Parse(%q): %s", src, res)
	}
	if res.Err != nil {
		return bad("plush.Parse(%q): %v", src, res.Err)
	}
	if (perr == nil) != (terr == nil) {
		return bad("parser.Parse and plush.Parse disagree on %q: %v vs %v", src, perr, terr)
	}
	if perr != nil && extended {
		// "Parse (and therefore Render)": an input that does not parse is not
		// evaluated, Render hands the error back
		res = vk.Safe(func() (string, error) {
			if _, err := plush.Render(src, plush.NewContext()); err == nil {
				return "", fmt.Errorf("no error although Parse fails with: %v", perr)
			}
			if _, err := plush.BuffaloRenderer(src, map[string]interface{}{}, nil); err == nil {
				return "", fmt.Errorf("BuffaloRenderer: no error although Parse fails with: %v", perr)
			}
			return "", nil
		})
		if res.Panicked() {
			return bad("plush.Render(%q): %s", src, res)
		}
		if res.Err != nil {
			return bad("plush.Render(%q): %v", src, res.Err)
		}
	}
	// evidence
	nt := ""
	if strings.Contains(src, "<%") && (perr != nil || unbalanced(src)) {
		nt = src
	}
	class := "ok"
	if perr != nil {
		class = "error"
	}
	if frame != "" {
		class = frame + "/" + class
	}
	r.Count(nt, class)
	if nt != "" {
		r.Sample(func() interface{} {
			e := ""
			if perr != nil {
				e = perr.Error()
			}
			s := src
			if len(s) > 300 {
				s = s[:300] + fmt.Sprintf("...(%d bytes)", len(src))
			}
			return map[string]interface{}{"src": vk.Text(s), "frame": frame, "error": e}
		})
	}
	return nil
}

// checkCached parses the sources in order through plush.Parse with the cache
// on: each answer must agree with a fresh, uncached parse of the same text.
// Only called from the single-threaded random phase and from replays.
func checkCached(r *vk.Run, srcs []string) *vk.Fail {
	c := CachedCase{}
	for _, s := range srcs {
		c.Srcs = append(c.Srcs, vk.Text(s))
	}
	defer r.Watch("cached", c)()
	old := plush.CacheEnabled
	plush.CacheEnabled = true
	defer func() { plush.CacheEnabled = old }()
	nontrivial := false
	for i, src := range srcs {
		var want error
		res := vk.Safe(func() (string, error) {
			_, want = parser.Parse(src)
			t, err := plush.Parse(src)
			if (err == nil) != (want == nil) {
				return "", fmt.Errorf("cached plush.Parse returned error %v, a fresh parser.Parse of the same text %v", err, want)
			}
			if err == nil {
				if t == nil {
					return "", fmt.Errorf("nil template and nil error")
				}
				if err2 := t.Parse(); err2 != nil {
					return "", fmt.Errorf("template handed out without error does not parse: %v", err2)
				}
			}
			return "", nil
		})
		if res.Panicked() {
			return &vk.Fail{Kind: "cached", Case: c, Msg: fmt.Sprintf("cache on, call %d, plush.Parse(%q): %s", i+1, src, res)}
		}
		if res.Err != nil {
			return &vk.Fail{Kind: "cached", Case: c, Msg: fmt.Sprintf("cache on (it may hold texts of earlier cases), call %d of %d, plush.Parse(%q): %v", i+1, len(srcs), src, res.Err)}
		}
		if want != nil && strings.Contains(src, "<%") {
			nontrivial = true
		}
	}
	nt := ""
	if nontrivial {
		nt = "cached\x00" + strings.Join(srcs, "\x00")
	}
	r.Count(nt, "cached")
	return nil
}

func cpuSeconds() float64 {
	var ru syscall.Rusage
	if syscall.Getrusage(syscall.RUSAGE_SELF, &ru) != nil {
		return 0
	}
	tv := func(t syscall.Timeval) float64 { return float64(t.Sec) + float64(t.Usec)/1e6 }
	return tv(ru.Utime) + tv(ru.Stime)
}

func textHash(s string) uint32 {
	h := fnv.New32a()
	h.Write([]byte(s))
	return h.Sum32()
}

func unbalanced(s string) bool {
	return strings.Count(s, "<%") != strings.Count(s, "%>") ||
		strings.Count(s, "(") != strings.Count(s, ")") ||
		strings.Count(s, "{") != strings.Count(s, "}") ||
		strings.Count(s, "[") != strings.Count(s, "]") ||
		strings.Count(s, "\"")%2 == 1 || strings.Count(s, "`")%2 == 1
}

// ---- vocabulary and framings for the exhaustive token-sequence space ----

var vocab = []string{
	"let", "fn", "func", "if", "else", "for", "in", "return", "break", "continue", "true", "false", "nil",
	"a", "a.b", "a-b", "1", "1.5", "1.2.3", `"s"`, "`b`", `"`, "`", "#", "@", ".", "<%", "<%=", "<%#", "%>",
	"=", "==", "!=", "!", "+", "-", "*", "/", "<", "<=", ">", ">=", "~=", "&&", "||", "&", "|",
	",", ";", ":", "(", ")", "{", "}", "[", "]", "\\", "\n",
}

// further spellings: values at the edge of their token class (numbers that do
// not fit, names with empty parts), bytes the lexer treats specially
var hugeInt = strings.Repeat("9", 20)
var hugeFloat = strings.Repeat("9", 400) + ".5"
var vocabX = []string{
	hugeInt, hugeFloat, "-" + hugeInt, "0", "007", "1.", ".5", "..", "...", "a.", ".a", "a..b", "a.1", "1.a", "a.b.c.d", "_", "-a", "a-", "--",
	"1e5", "0x1", "~", "%", "$", "^", "?", "'", "\x00", "\xff", "é", "\r", "\r\n", "\t", "\\<%", "\\\\<%", "\\\"", "\"a\\\"", "\"a\\\\\"", "<", "%>%>", "<%<%",
	"if(", "for(", "fn(", "else if", "){", "}(", "](", ")[", "a[", "a(", "a.b(", "f()", "a[0]", "f().", "a[0].", "x=", "{}", "[]", "()", "{a:",
}

var frames = []struct{ name, pre, post string }{
	{"closed", "<% ", " %>"},
	{"emit", "<%= ", " %>"},
	{"open", "<% ", ""},
	{"emit-open", "<%= ", ""},
	{"comment", "<%# ", " %>"},
	{"comment-open", "<%# ", ""},
	{"nested-opener", "<% <% ", " %>"},
	{"in-if", "<%= if (true) { %> ", " <% } %>"},
	{"in-for", "<%= for (v) in a { ", " } %>"},
	{"in-call", "<%= f(", ") %>"},
	{"bare", "", ""},
	{"text-around", "x\\<% ", " %>y<%"},
	// every position of the grammar that takes an operand, a name or a continuation
	{"if-body", "<%= if (true) { ", " } %>"},
	{"if-cond", "<%= if (", ") { } %>"},
	{"after-if", "<%= if (a) { } ", " %>"},
	{"elseif-cond", "<% if (a) { } else if (", ") { } %>"},
	{"else-body", "<% if (a) { } else { ", " } %>"},
	{"for-header", "<%= for (", ") in a { } %>"},
	{"for-iter", "<%= for (v) in ", " { } %>"},
	{"fn-params", "<% let f = fn(", ") { } %>"},
	{"fn-body", "<% let f = fn(x) { ", " } %>"},
	{"call-block", "<%= f() { ", " } %>"},
	{"after-call", "<%= f() ", " %>"},
	{"after-index", "<%= a[0] ", " %>"},
	{"after-dot", "<%= f().", " %>"},
	{"after-index-dot", "<%= a[0].", " %>"},
	{"index", "<%= a[", "] %>"},
	{"array", "<%= [1, ", "] %>"},
	{"hash-key", "<%= {", ": 1} %>"},
	{"hash-val", "<%= {a: ", "} %>"},
	{"let-name", "<% let ", " = 1 %>"},
	{"let-val", "<% let x = ", " %>"},
	{"assign-val", "<% x = ", " %>"},
	{"index-assign", "<% a[0] = ", " %>"},
	{"return", "<% return ", " %>"},
	{"infix-right", "<%= 1 + ", " %>"},
	{"infix-left", "<%= ", " + 1 %>"},
	{"prefix", "<%= !", " %>"},
	{"group", "<%= (", ") %>"},
	{"string", "<%= \"", "\" %>"},
	{"bstring", "<%= `", "` %>"},
	{"line-comment", "<% # ", "\n a %>"},
	{"after-comment", "<%# c %><% ", " %>"},
	{"second-tag", "<%= a %><% ", " %>"},
	{"stmt-seq", "<% a\n", "\nb %>"},
	{"block-over-tags", "<%= f() { %>x<% ", " %>y<% } %>"},
}

// the spellings that carry the structure of the grammar
var coreVocab = []string{
	"let", "fn", "if", "else", "for", "in", "return", "break", "true", "nil", "a", "a.b", "1", "1.5", `"s"`, "`b`", `"`, "#", ".", "<%", "<%=", "%>",
	"=", "==", "!", "+", "-", "<", ",", ";", ":", "(", ")", "{", "}", "[", "]", "\n",
}

const oldFrames = 12 // the framings the first version of this check had

func seqOf(v []string, idx int64, k int, glue string) string {
	n := int64(len(v))
	parts := make([]string, k)
	for j := k - 1; j >= 0; j-- {
		parts[j] = v[idx%n]
		idx /= n
	}
	return strings.Join(parts, glue)
}

func pow(b, e int) int64 {
	x := int64(1)
	for i := 0; i < e; i++ {
		x *= int64(b)
	}
	return x
}

// ---- catalogue of well-formed templates, one per construct, as token lists;
// the exhaustive "one slip of the keyboard" space is built on it -----------

var catalogueSrc = []string{
	`<%= a %>`,
	`<% let x = 1 %>`,
	`<% x = a.b %>`,
	`<%= a + b * c %>`,
	`<%= ! a == - 1 %>`,
	`<%= ( a + b ) * 2 %>`,
	`<%= if ( a ) { %> x <% } else if ( b ) { %> y <% } else { %> z <% } %>`,
	`<% if ( a == 1 && ! b ) { return 1 } %>`,
	`<% if ( a ) { b } else if ( c ) { d } else if ( e ) { f } else { g } %>`,
	`<%= for ( k , v ) in xs { %> <%= v %> <% } %>`,
	`<% for ( v ) in f ( 1 ) { continue } %>`,
	`<%= for ( x ) in xs { if ( x ) { break } } %>`,
	`<% let f = fn ( x , y ) { return x + y } %>`,
	`<%= f ( 1 , "s" , [ 1 , 2 ] , { a : 1 , "b" : 2 } ) %>`,
	`<%= f ( ) { %> x <% } %>`,
	`<%= f ( a ) { return 1 } %>`,
	`<%= a.b ( 1 ) . c ( ) %>`,
	`<%= f ( ) . g ( ) { %> x <% } %>`,
	`<%= a [ 0 ] . b [ 1 ] . c %>`,
	`<%= a [ 0 ] . b ( 1 ) %>`,
	`<%= f ( ) . b [ 1 ] %>`,
	`<% a [ 0 ] = 1 %>`,
	`<%= a [ 0 ] [ "k" ] %>`,
	`<%# note %> x`,
	`x \<% y <%= 1 %> z`,
	"<%= \"s\" + `b` %>",
	`<% # note NL let x = 1 %>`,
	`<%= 1.5 ~= "x" %>`,
	`<% return a ; b ; %>`,
	`<%= f ( fn ( x ) { x } ) %>`,
	`<%= { a : { b : [ 1 ] } } %>`,
	`<% let a = 1 NL let b = 2 NL a = b %>`,
	`<%= if ( a [ 0 ] . b ( ) ) { } %>`,
	`<%= if ( ( a || b ) && c != nil ) { %> x <% } %>`,
	`<% let h = { } %> <% let l = [ ] %>`,
	`<%= partial ( "p" , { a : 1 } ) %>`,
}

var catalogue = func() [][]string {
	var out [][]string
	for _, s := range catalogueSrc {
		toks := strings.Fields(s)
		for i, t := range toks {
			if t == "NL" {
				toks[i] = "\n"
			}
		}
		out = append(out, toks)
	}
	return out
}()

// slip describes edit number e of catalogue entry ci: delete / duplicate /
// swap-with-next one token, or replace it by / insert before it every
// vocabulary spelling (insert also at the very end).
func slipCount(toks []string) int64 {
	n, v := int64(len(toks)), int64(len(vocab))
	return n*3 + n*v + (n+1)*v
}

func slip(toks []string, e int64) string {
	n, v := int64(len(toks)), int64(len(vocab))
	out := append([]string(nil), toks...)
	switch {
	case e < n: // delete
		out = append(out[:e], out[e+1:]...)
	case e < 2*n: // duplicate
		i := e - n
		out = append(out[:i+1], out[i:]...)
	case e < 3*n: // swap with the next one (the last one: with the first)
		i := e - 2*n
		j := (i + 1) % n
		out[i], out[j] = out[j], out[i]
	case e < 3*n+n*v: // replace
		e -= 3 * n
		out[e/v] = vocab[e%v]
	default: // insert
		e -= 3*n + n*v
		i := e / v
		out = append(out[:i], append([]string{vocab[e%v]}, out[i:]...)...)
	}
	return strings.Join(out, " ")
}

// ---- nesting and repetition -----------------------------------------------

var nestUnits = []struct{ open, close string }{
	{"(", ")"}, {"[", "]"}, {"{a: ", "}"}, {"f(", ")"}, {"a[", "]"}, {"!", ""}, {"-", ""},
	{"if (true) { ", " }"}, {"if (true) { %>x<% ", " %>y<% }"}, {"for (v) in a { ", " }"}, {"fn(x) { ", " }"},
	{"f() { ", " }"}, {"<%= ", " %>"}, {"1 + ", ""}, {"a.b(", ").c"}, {"[1, ", "]"}, {"if (", ") { }"}, {"else { ", " }"},
	// added
	{"{a: 1, b: ", "}"}, {"{", ": 1}"}, {"f(1, ", ")"}, {"f().", ""}, {"a[0].", ""}, {"a[0][", "]"}, {"f()[", "]"},
	{"if (a) { } else if (", ") { }"}, {"if (a) { } else { ", " }"}, {"f() { %>x<% ", " %>y<% }"}, {"for (v) in ", " { }"},
	{"let x = ", ""}, {"x = ", ""}, {"a[0] = ", ""}, {"return ", ""}, {"fn(", ") { }"}, {"1 == ", ""}, {"(1 + ", ")"},
	{"<% ", " %>"}, {"<%# ", " %>"}, {"\"", "\""}, {"#", "\n"},
}

// chains: one construct repeated side by side (no syntactic nesting asked for,
// whatever the parser makes of it)
var chainUnits = []struct{ pre, rep, post string }{
	{"<%= a", "(1)", " %>"}, {"<%= a", "[0]", " %>"}, {"<%= a", ".b", " %>"}, {"<%= f()", ".g()", " %>"}, {"<%= a[0]", ".b[0]", " %>"},
	{"<%= 1", " + 1", " %>"}, {"<%= a", " && b", " %>"}, {"<%= a", " == 1", " %>"}, {"<%= f(1", ", 1", ") %>"}, {"<%= [1", ", 1", "] %>"},
	{"<%= {a: 1", ", a: 1", "} %>"}, {"<% let f = fn(x", ", x", ") { } %>"}, {"<% if (a) { }", " else if (a) { }", " %>"},
	{"<% if (a) { }", " else { }", " %>"}, {"<% ", "a\n", " %>"}, {"<% ", "a;", " %>"}, {"<% ", ";", " %>"}, {"", "<%= a %>", ""}, {"", "<%# c %>", ""},
	{"", "<%# \" %>", ""}, {"<% ", "# c\n", " a %>"}, {"<% ", "#\n", ""}, {"<%= ", "\"s\" ", " %>"}, {"<%= ", "`b` ", " %>"}, {"", "\\<%", ""}, {"", "\\\\<%= 1 %>", ""},
	{"<% ", "}", " %>"}, {"<% ", ")", " %>"}, {"<% ", "%>", ""}, {"", "<%", ""}, {"<% ", "let x = 1 ", " %>"}, {"<%= for (", "k, ", ") in a { } %>"}, {"<% ", "\n", "a %>"},
	{"<% ", "return ", "1 %>"}, {"<%= ", "1.", " %>"}, {"<%= a", ".", "b %>"}, {"<%= 1", "9", " %>"}, {"<%= 1.", "9", " %>"}, {"<%= f()", " { }", " %>"},
}

// knownOpen lists generator classes that are steered away from a defect of
// plush that is not repaired yet; empty the table once it is.
//
// call-chain-cubic: a(1)(1)(1)... costs time cubic in the number of calls
// (parser.go parseCallExpression prints the whole callee for every call):
// 1024 calls take 4 s of CPU, 2048 take 19 s, 4096 several minutes, which the
// watchdog would report as non-termination. Until /tmp/hunt-C03/callchain/fix.diff
// is applied the chain is generated with at most 257 calls.
var knownOpen = map[string]bool{
	// (call-chain-cubic, AF-45, was fixed in /repo: the 1024-call chain runs as regression coverage)
}

var nestDepths = []int{0, 1, 2, 3, 4, 255, 256, 257, 1024}
var nestOpeners = []string{"<% ", "<%= ", "<% let x = "}
var nestCores = []string{"1", "a", "", "\"s\"", "%>"}

func nestText(opener string, opens, closes []string, core string, closeN int, end bool, limit int) string {
	var sb strings.Builder
	sb.WriteString(opener)
	for _, o := range opens {
		sb.WriteString(o)
	}
	sb.WriteString(core)
	for i := 0; i < closeN && i < len(closes); i++ {
		sb.WriteString(closes[len(closes)-1-i])
	}
	if end {
		sb.WriteString(" %>")
	}
	s := sb.String()
	if len(s) > limit {
		s = s[:limit]
	}
	return s
}

func repeatUnit(open, close string, depth int) (opens, closes []string) {
	for i := 0; i < depth; i++ {
		opens = append(opens, open)
		closes = append(closes, close)
	}
	return
}

// ---- random generators ---------------------------------------------------

var hostile = []string{
	"<%", "<%=", "<%#", "%>", "\\<%", "\\\\<%", "\\<", "\\", "\"", "`", "#", "{", "}", "(", ")", "[", "]",
	"if (", "for (", "fn(", "else", "else if (", "let ", "return ", ".", "..", "1.", ".5", "a.", ".a", "a[", "a(", "a.b(", "](", ")[", ")(", "){", "}(",
	":", ",", ";", "=", "==", "\x00", "\xff", "é", "\r\n", "\n", "\t", "~", "~=", "&", "|", "@", "$", "99999999999999999999", "1e5", "0x1", "-", "--", "a-", "-a",
}

func genSoup(t *rapid.T) string {
	n := rapid.IntRange(0, 60).Draw(t, "n")
	var sb strings.Builder
	if rapid.IntRange(0, 3).Draw(t, "open") > 0 {
		sb.WriteString(rapid.SampledFrom([]string{"<% ", "<%= ", "<%# ", "<%"}).Draw(t, "opener"))
	}
	spacing := rapid.IntRange(0, 3).Draw(t, "spacing") // 0: never a space (glued), 3: mostly
	for i := 0; i < n; i++ {
		switch h := rapid.IntRange(0, 11).Draw(t, "h"); {
		case h == 0:
			sb.WriteString(rapid.SampledFrom(hostile).Draw(t, "hostile"))
		case h == 1:
			sb.WriteString(rapid.SampledFrom(vocabX).Draw(t, "edge"))
		default:
			sb.WriteString(rapid.SampledFrom(vocab).Draw(t, "tok"))
		}
		if spacing > 0 && rapid.IntRange(0, 3).Draw(t, "sp") < spacing {
			sb.WriteByte(' ')
		}
	}
	if rapid.IntRange(0, 2).Draw(t, "close") > 0 {
		sb.WriteString(" %>")
	}
	return sb.String()
}

func genMutant(t *rapid.T, corp []string) string {
	s := rapid.SampledFrom(corp).Draw(t, "base")
	ops := rapid.IntRange(1, 4).Draw(t, "ops")
	for i := 0; i < ops && len(s) > 0; i++ {
		p := rapid.IntRange(0, len(s)).Draw(t, "pos")
		switch rapid.IntRange(0, 6).Draw(t, "op") {
		case 0: // prefix
			s = s[:p]
		case 1: // suffix
			s = s[p:]
		case 2: // delete a span
			q := p + rapid.IntRange(0, 8).Draw(t, "len")
			if q > len(s) {
				q = len(s)
			}
			s = s[:p] + s[q:]
		case 3: // duplicate a span
			q := p + rapid.IntRange(1, 12).Draw(t, "len")
			if q > len(s) {
				q = len(s)
			}
			s = s[:q] + s[p:q] + s[q:]
		case 4: // insert hostile fragment
			s = s[:p] + rapid.SampledFrom(hostile).Draw(t, "frag") + s[p:]
		case 5: // swap two bytes
			if len(s) >= 2 {
				q := rapid.IntRange(0, len(s)-1).Draw(t, "pos2")
				if p == len(s) {
					p--
				}
				b := []byte(s)
				b[p], b[q] = b[q], b[p]
				s = string(b)
			}
		case 6: // replace one byte
			if p < len(s) {
				b := []byte(s)
				b[p] = rapid.Byte().Draw(t, "byte")
				s = string(b)
			}
		}
	}
	if len(s) > maxLen {
		s = s[:maxLen]
	}
	return s
}

// genSlips: a catalogue entry with 2-4 token edits (one edit is enumerated)
func genSlips(t *rapid.T) string {
	toks := append([]string(nil), rapid.SampledFrom(catalogue).Draw(t, "entry")...)
	pick := func() string {
		if rapid.IntRange(0, 4).Draw(t, "edge") == 0 {
			return rapid.SampledFrom(vocabX).Draw(t, "x")
		}
		return rapid.SampledFrom(vocab).Draw(t, "v")
	}
	for n := rapid.IntRange(2, 4).Draw(t, "edits"); n > 0 && len(toks) > 0; n-- {
		i := rapid.IntRange(0, len(toks)-1).Draw(t, "at")
		switch rapid.IntRange(0, 3).Draw(t, "edit") {
		case 0:
			toks = append(toks[:i], toks[i+1:]...)
		case 1:
			toks[i] = pick()
		case 2:
			toks = append(toks[:i], append([]string{pick()}, toks[i:]...)...)
		case 3:
			toks = toks[:i] // truncate
		}
	}
	glue := rapid.SampledFrom([]string{" ", " ", " ", "", "\n"}).Draw(t, "glue")
	return strings.Join(toks, glue)
}

func genNest(t *rapid.T) string {
	depth := rapid.IntRange(1, 300).Draw(t, "depth")
	mix := rapid.Bool().Draw(t, "mix")
	u := rapid.IntRange(0, len(nestUnits)-1).Draw(t, "unit")
	closeN := depth
	switch rapid.IntRange(0, 3).Draw(t, "closing") {
	case 0:
		closeN = 0
	case 1:
		closeN = rapid.IntRange(0, depth).Draw(t, "closeN")
	}
	var opens, closes []string
	for i := 0; i < depth; i++ {
		k := u
		if mix {
			k = rapid.IntRange(0, len(nestUnits)-1).Draw(t, "u")
		}
		opens = append(opens, nestUnits[k].open)
		closes = append(closes, nestUnits[k].close)
	}
	opener := rapid.SampledFrom(nestOpeners).Draw(t, "opener")
	core := rapid.SampledFrom(nestCores).Draw(t, "core")
	limit := maxLen
	if rapid.IntRange(0, 3).Draw(t, "whole") == 0 {
		limit = maxLenDeep // do not cut the closers off
	}
	return nestText(opener, opens, closes, core, closeN, rapid.Bool().Draw(t, "end"), limit)
}

// genBig: tens of kilobytes of ordinary template text (harvested templates
// side by side) with one hostile fragment somewhere
func genBig(t *rapid.T, corp []string) string {
	want := rapid.IntRange(8*1024, maxLenDeep).Draw(t, "size")
	var sb strings.Builder
	for sb.Len() < want {
		sb.WriteString(rapid.SampledFrom(corp).Draw(t, "part"))
	}
	s := sb.String()
	if rapid.Bool().Draw(t, "hurt") {
		p := rapid.IntRange(0, len(s)).Draw(t, "pos")
		s = s[:p] + rapid.SampledFrom(hostile).Draw(t, "frag") + s[p:]
	}
	if rapid.Bool().Draw(t, "cut") {
		s = s[:rapid.IntRange(0, len(s)).Draw(t, "cutAt")]
	}
	return s
}

// genCached: the same text asked for again, with other texts in between that
// share its beginning, its end, or its length
func genCached(t *rapid.T, corp []string) []string {
	var a string
	switch rapid.IntRange(0, 3).Draw(t, "kind") {
	case 0:
		a = genSoup(t)
	case 1:
		a = genMutant(t, corp)
	case 2:
		a = genSlips(t)
	default: // a few hundred bytes of well-formed template
		for n := rapid.IntRange(2, 5).Draw(t, "parts"); n > 0; n-- {
			a += rapid.SampledFrom(corp).Draw(t, "part")
		}
	}
	other := func() string {
		switch rapid.IntRange(0, 5).Draw(t, "other") {
		case 0:
			return a + rapid.SampledFrom(hostile).Draw(t, "tail")
		case 5: // a tail that does not parse wherever it lands
			return a + rapid.SampledFrom([]string{"<%= ) %>", "%><%= ( %>", "<% if %>", "<%= 1 +"}).Draw(t, "badtail")
		case 1:
			return rapid.SampledFrom(hostile).Draw(t, "head") + a
		case 2:
			if len(a) > 0 {
				return a[:len(a)-1]
			}
			return "x"
		case 3:
			b := []byte(a)
			if len(b) > 0 {
				b[rapid.IntRange(0, len(b)-1).Draw(t, "at")] = rapid.SampledFrom([]byte("(){}\"`%<a1 ")).Draw(t, "byte")
			}
			return string(b)
		}
		return rapid.SampledFrom(corp).Draw(t, "corp")
	}
	srcs := []string{a}
	for n := rapid.IntRange(1, 3).Draw(t, "more"); n > 0; n-- {
		if rapid.Bool().Draw(t, "again") {
			srcs = append(srcs, a)
		} else {
			srcs = append(srcs, other())
		}
	}
	return append(srcs, a)
}

// ---- the test ------------------------------------------------------------

const rule = "inputs: (E) every sequence of <=k tokens (k = 2 quick, 3 thorough) of a 58-spelling vocabulary joined by a space in the 12 basic tag framings (closed, unclosed, emit, comment, nested opener, text around), and in 34 further framings that put it at every operand, name and continuation position of the grammar (if condition / body / after the block, else-if condition, for header / iterable, fn parameters / body, call block, after a call / an index / a dot, index, array, hash key / value, let name / value, assignment, return, infix left / right, prefix, group, inside a string, after a line comment, second tag, block spanning tags) up to length k-1, at length k over the 38 spellings that carry structure; the same sequences glued without a space and joined by a newline in 3 framings (length 3: 2); (thorough) 4 tokens over the 24 most structural spellings in the basic framings; a second vocabulary of 61 edge spellings (numbers that do not fit int / float64, names with empty parts, NUL, CR, invalid UTF-8, escapes, glued punctuation) alone in every framing, next to every ordinary token (both orders, spaced and glued) in 3 framings and (thorough) in pairs; every single token slip (delete, duplicate, swap with the next, replace by / insert each of the 58 spellings at every position) in a catalogue of 36 well-formed templates that covers every construct; every prefix, suffix and one-byte deletion (thorough: also every insertion of 12 hostile bytes at every position) of the 277 templates harvested from the repository's tests; 40 nesting units at depths 0-4 (closed / half closed / unclosed x 3 openers x 5 innermost operands) and 255, 256, 257, 1024 (fewer combinations; inputs up to 64 KiB), 39 side-by-side repetition units (call, index, member, operator, argument, pair, parameter, else-if, statement, tag, comment, string, escape chains) 0-4, 255-257 and 1024 times, whole and cut inside the last repetition; (R) random token soup <=60 tokens of both vocabularies with and without spaces, 2-4 token slips in the catalogue, byte-level mutations (prefix, suffix, delete, duplicate, insert hostile fragment, swap, replace) of the harvested templates, mixed nesting to depth 300, 8-64 KiB concatenations of harvested templates with one hostile fragment and / or cut, and sequences of 3-5 plush.Parse calls with the template cache on that ask for the same text again with near-identical texts (one byte more, less or different, a tail that does not parse) in between; (H) hostile sizes: 2-3 million opening parentheses / brackets / calls / hashes / tag openers / line comments / prefix operators in a row and 100-200 thousand open blocks (inputs of 3-9 MB: each must be answered with a value or an error, not with the exhaustion of the Go stack); (F, thorough) native coverage-guided fuzzing. Oracle: lexer.NextToken reaches a lasting EOF; parser.Parse / plush.Parse return a value or an error with a non-empty text, never panic, never exceed the lexer token budget (32*len+65536 NextToken calls) and agree on error-ness with each other and with plush.Parse through the cache; a parsed program prints; for one text in eight (chosen by a hash of the text) also: a second Template.Parse and a Clone give the same answer, and Exec, Render and BuffaloRenderer of an input that does not parse return an error. Non-trivial = input contains a tag opener and is unbalanced/truncated or is rejected with an error; distinct by input text."

func setup(t *testing.T) *vk.Run {
	r := vk.Start(t, "C03", rule,
		"non-termination is recognised by the H2 token budget (build tag verif) or by the CPU-time watchdog; a parser loop that neither pulls tokens nor burns CPU would be missed",
		"inputs are capped at 64 KiB and nesting at 1024 levels: the parser, the printers and the lexer's line-comment skipping recurse once per level and the Go stack (1 GB) is only exhausted (fatal, not recoverable) at about 1-3 million levels, i.e. inputs of 2 MB and more that consist of nothing but nesting; printing a tree is quadratic in its depth (100 000 nested '!' take 13 s), which is slow but terminates",
		"evaluation of parsed programs is C04's concern and is not exercised here: Exec / Render are only called for inputs whose Parse fails")
	r.Replayer("parse", func(raw json.RawMessage) *vk.Fail {
		var c Case
		if f := vk.Decode(raw, &c); f != nil {
			return f
		}
		return checkSrc(r, string(c.Src), c.Frame)
	})
	r.Replayer("cached", func(raw json.RawMessage) *vk.Fail {
		var c CachedCase
		if f := vk.Decode(raw, &c); f != nil {
			return f
		}
		var srcs []string
		for _, s := range c.Srcs {
			srcs = append(srcs, string(s))
		}
		return checkCached(r, srcs)
	})
	r.Replayer("gofuzz", func(raw json.RawMessage) *vk.Fail {
		var c struct {
			Target     string `json:"target"`
			CorpusFile string `json:"corpus_file"`
		}
		if f := vk.Decode(raw, &c); f != nil {
			return f
		}
		src, err := parseGoFuzzFile(c.CorpusFile)
		if err != nil {
			return &vk.Fail{Kind: "decode", Msg: err.Error()}
		}
		if len(src) > maxLen {
			src = src[:maxLen]
		}
		return checkSrc(r, src, "fuzz")
	})
	return r
}

func parseGoFuzzFile(s string) (string, error) {
	for _, l := range strings.Split(s, "\n") {
		l = strings.TrimSpace(l)
		for _, p := range []string{"[]byte(", "string("} {
			if strings.HasPrefix(l, p) && strings.HasSuffix(l, ")") {
				return strconv.Unquote(l[len(p) : len(l)-1])
			}
		}
	}
	return "", fmt.Errorf("no value line in fuzz corpus file")
}

func TestReplay(t *testing.T) {
	r := setup(t)
	r.ReplayEnv()
}

var hostileBytes = []string{"\"", "`", "(", "{", "[", "%", "<", "\\", "#", ".", "\x00", "\n"}

func TestProp(t *testing.T) {
	r := setup(t)
	defer r.Finish()
	r.ReplayCommitted()

	// E: token sequences in framings
	t0 := time.Now()
	phases := map[string]float64{}
	cpu0 := cpuSeconds()
	lap := func(name string) {
		c := cpuSeconds()
		phases[name] = float64(time.Since(t0).Milliseconds()) / 1000
		phases[name+" (cpu)"] = float64(int((c-cpu0)*1000)) / 1000
		t0, cpu0 = time.Now(), c
		r.Extra("phase_wall_and_cpu_s", phases)
	}
	seqSpace := func(what string, v []string, kk int, fidx []int, glue, classPrefix string) {
		n := pow(len(v), kk)
		nfr := int64(len(fidx))
		total := n * nfr
		r.Subspace(fmt.Sprintf("%s, length %d x %d framings", what, kk, len(fidx)), total, true)
		r.Parallel(total, 0, func(i int64) {
			fr := frames[fidx[i%nfr]]
			r.Check(checkSrc(r, fr.pre+seqOf(v, i/nfr, kk, glue)+fr.post, classPrefix+fr.name))
		})
	}
	var oldF, newF, allF []int
	for i := range frames {
		allF = append(allF, i)
		if i < oldFrames {
			oldF = append(oldF, i)
		} else {
			newF = append(newF, i)
		}
	}
	k := r.Pick(2, 3)
	// the first 12 framings: the whole vocabulary up to length k
	for kk := 0; kk <= k; kk++ {
		seqSpace("token sequences over the vocabulary", vocab, kk, oldF, " ", "")
	}
	// the 34 operand / name / continuation framings: whole vocabulary to length
	// k-1, the 38 core spellings at length k
	for kk := 0; kk < k; kk++ {
		seqSpace("token sequences over the vocabulary", vocab, kk, newF, " ", "")
	}
	seqSpace("token sequences over the 38 core spellings", coreVocab, k, newF, " ", "")
	lap("sequences")
	// the same sequences glued without a space / joined by a newline
	glueF := []int{0, 3, 9} // closed, emit-open, in-call
	for kk := 2; kk <= k; kk++ {
		if kk == 3 {
			glueF = []int{3, 9}
		}
		seqSpace("token sequences glued without a space", vocab, kk, glueF, "", "glued-")
		seqSpace("token sequences joined by a newline", vocab, kk, glueF, "\n", "newline-")
	}
	lap("glued")
	// edge spellings alone, before and after every ordinary token, and (thorough) in pairs
	{
		seqSpace("one edge spelling", vocabX, 1, allF, " ", "edge-")
		nx, nv := int64(len(vocabX)), int64(len(vocab))
		edgeF := []int{1, 2, 10} // emit, open, bare
		of := int64(len(edgeF))
		total := nx * nv * 4 * of
		r.Subspace(fmt.Sprintf("edge spelling next to an ordinary token (2 orders, spaced / glued) x %d framings", len(edgeF)), total, true)
		r.Parallel(total, 0, func(i int64) {
			fr := frames[edgeF[i%of]]
			j := i / of
			mode := j % 4
			j /= 4
			x, v := vocabX[j/nv], vocab[j%nv]
			a, b := x, v
			if mode&1 == 1 {
				a, b = v, x
			}
			g := " "
			if mode&2 == 2 {
				g = ""
			}
			r.Check(checkSrc(r, fr.pre+a+g+b+fr.post, "edge-"+fr.name))
		})
		if r.Thorough() {
			seqSpace("two edge spellings", vocabX, 2, allF, " ", "edge-")
		}
	}
	lap("edge")
	// E (thorough): sequences of 4 tokens over the 24 most structural spellings
	if r.Thorough() {
		core := []string{"if", "else", "for", "in", "fn", "let", "return", "break", "a", "1", `"s"`, "(", ")", "{", "}", "[", "]", ",", ":", ".", "=", "<%", "<%=", "%>"}
		nc := int64(len(core))
		of := int64(oldFrames)
		total := nc * nc * nc * nc * of
		r.Subspace(fmt.Sprintf("token sequences of length 4 over %d structural spellings x %d framings", nc, oldFrames), total, true)
		r.Parallel(total, 0, func(i int64) {
			fr := frames[i%of]
			r.Check(checkSrc(r, fr.pre+seqOf(core, i/of, 4, " ")+fr.post, fr.name))
		})
	}
	lap("len4")
	// E: every single token slip in every catalogue entry
	{
		var offs []int64
		var total int64
		for _, toks := range catalogue {
			offs = append(offs, total)
			total += slipCount(toks)
		}
		r.Subspace(fmt.Sprintf("every single token slip (delete, duplicate, swap, replace by / insert each of %d spellings) in %d well-formed templates", len(vocab), len(catalogue)), total, true)
		r.Parallel(total, 0, func(i int64) {
			ci := len(offs) - 1
			for offs[ci] > i {
				ci--
			}
			r.Check(checkSrc(r, slip(catalogue[ci], i-offs[ci]), "slip"))
		})
		for _, toks := range catalogue {
			r.Check(checkSrc(r, strings.Join(toks, " "), "catalogue"))
		}
	}
	lap("slips")
	// E: every prefix, suffix and one-byte deletion of every harvested template
	corp := corpus.Templates()
	var cuts, dels, ins int64
	r.Parallel(int64(len(corp)), 0, func(ti int64) {
		s := corp[ti]
		for p := 0; p <= len(s); p++ {
			r.Check(checkSrc(r, s[:p], "prefix"))
			r.Check(checkSrc(r, s[p:], "suffix"))
		}
		atomic.AddInt64(&cuts, 2*int64(len(s)+1))
	})
	r.Subspace("every prefix and suffix of the harvested templates", cuts, true)
	r.Parallel(int64(len(corp)), 0, func(ti int64) {
		s := corp[ti]
		var d, n int64
		for p := 0; p < len(s); p++ {
			r.Check(checkSrc(r, s[:p]+s[p+1:], "delete-byte"))
			d++
		}
		if r.Thorough() {
			for p := 0; p <= len(s); p++ {
				for _, h := range hostileBytes {
					r.Check(checkSrc(r, s[:p]+h+s[p:], "insert-byte"))
					n++
				}
			}
		}
		atomic.AddInt64(&dels, d)
		atomic.AddInt64(&ins, n)
	})
	r.Subspace("every one-byte deletion of the harvested templates", dels, true)
	if r.Thorough() {
		r.Subspace(fmt.Sprintf("every insertion of one of %d hostile bytes at every position of the harvested templates", len(hostileBytes)), ins, true)
	}
	lap("corpus")
	// E: nesting and repetition at the boundary depths
	{
		type cell struct {
			unit, depth, closing int
			opener, core         string
		}
		// depths 0-4: the whole matrix; 255-257: one opener, two cores; 1024
		// (expensive: the printers copy the text once per level): closed and
		// unclosed, one opener, one core
		var cells []cell
		depths := nestDepths
		if r.Quick() {
			depths = []int{0, 1, 2, 3, 4, 255, 256, 257, 1024}
		}
		for u := range nestUnits {
			for _, d := range depths {
				for cl := 0; cl < 3; cl++ {
					switch {
					case d <= 4:
						for _, o := range nestOpeners {
							for _, c := range nestCores {
								cells = append(cells, cell{u, d, cl, o, c})
							}
						}
					case r.Quick():
						// closed and unclosed at 255-257, at 1024 closed only and the first 12 units only
						if (cl == 0 && (d < 1024 || u < 12)) || (cl == 2 && d < 1024) {
							cells = append(cells, cell{u, d, cl, "<%= ", "1"})
						}
					case d < 1024:
						cells = append(cells, cell{u, d, cl, "<%= ", "1"}, cell{u, d, cl, "<%= ", ""})
					case cl != 1:
						cells = append(cells, cell{u, d, cl, "<%= ", "1"})
					}
				}
			}
		}
		total := int64(len(cells))
		r.Subspace(fmt.Sprintf("%d nesting units x depths %v x closed/half/unclosed (depths <= 4: x %d openers x %d cores; 255-257: 2 cores, quick 1 core and not half closed; 1024: closed and unclosed, quick closed)", len(nestUnits), depths, len(nestOpeners), len(nestCores)), total, true)
		r.Parallel(total, 0, func(i int64) {
			c := cells[i]
			u := nestUnits[c.unit]
			opens, closes := repeatUnit(u.open, u.close, c.depth)
			closeN := []int{c.depth, c.depth / 2, 0}[c.closing]
			r.Check(checkSrc(r, nestText(c.opener, opens, closes, c.core, closeN, c.closing != 2, maxLenDeep), "nest-edge"))
		})
		counts := append([]int{}, depths...) // 1024 repetitions cost little: no nesting
		total = int64(len(chainUnits) * len(counts) * 2)
		r.Subspace(fmt.Sprintf("%d repetition units x counts %v x whole / cut in the middle of the last repetition", len(chainUnits), counts), total, true)
		r.Parallel(total, 0, func(i int64) {
			cut := i%2 == 1
			i /= 2
			n := counts[i%int64(len(counts))]
			u := chainUnits[i/int64(len(counts))]
			if knownOpen["call-chain-cubic"] && u.rep == "(1)" && n > 257 {
				r.Exclude("call-chain-cubic")
				return
			}
			s := u.pre + strings.Repeat(u.rep, n)
			if cut {
				if n > 0 {
					s = s[:len(s)-(len(u.rep)+1)/2]
				}
			} else {
				s += u.post
			}
			if len(s) > maxLenDeep {
				s = s[:maxLenDeep]
			}
			r.Check(checkSrc(r, s, "chain"))
		})
	}

	lap("nest-edge")
	// R
	r.Rapid("soup", r.Pick(4000, 60000), func(t *rapid.T) *vk.Fail {
		return checkSrc(r, genSoup(t), "soup")
	})
	r.Rapid("slips", r.Pick(4000, 60000), func(t *rapid.T) *vk.Fail {
		return checkSrc(r, genSlips(t), "slips")
	})
	r.Rapid("mutants", r.Pick(4000, 60000), func(t *rapid.T) *vk.Fail {
		return checkSrc(r, genMutant(t, corp), "mutant")
	})
	r.Rapid("nesting", r.Pick(1500, 20000), func(t *rapid.T) *vk.Fail {
		return checkSrc(r, genNest(t), "nest")
	})
	r.Rapid("big", r.Pick(60, 600), func(t *rapid.T) *vk.Fail {
		return checkSrc(r, genBig(t, corp), "big")
	})
	r.Rapid("cached", r.Pick(1500, 20000), func(t *rapid.T) *vk.Fail {
		return checkCached(r, genCached(t, corp))
	})
	lap("random")

	// (H) hostile sizes: megabytes of nothing but nesting, openers or comments. The parser recurses per level and the
	// lexer used to recurse per comment line: without a bound this ends in a fatal stack overflow, which kills the
	// process (the run is then reported as inconclusive, exit 2, not as a violation - there is no recovering from it).
	// One shard only; the inputs are built here, not stored.
	if r.Shard == 0 {
		type huge struct {
			name, prefix, unit, suffix string
			n                          int
		}
		hs := []huge{
			{"3M open parentheses", "<%= ", "(", "", 3000000},
			{"3M tag openers", "", "<% ", "", 3000000},
			{"3M line comments", "<%= 1 ", "#\n", "%>", 3000000},
			{"10001 balanced parentheses", "<%= " + strings.Repeat("(", 10001) + "1", ")", " %>", 10001},
		}
		if r.Thorough() {
			hs = append(hs,
				huge{"2M open brackets", "<%= ", "[", "", 2000000},
				huge{"2M open calls", "<%= ", "f(", "", 2000000},
				huge{"2M open hashes", "<%= ", "{a:", "", 2000000},
				huge{"3M bangs", "<%= ", "!", "x %>", 3000000},
				huge{"200k open blocks", "<%= ", "f() { ", "", 200000},
				huge{"100k open ifs", "", "<%= if (true) { %>", "", 100000})
		}
		for _, h := range hs {
			r.Check(checkSrc(r, h.prefix+strings.Repeat(h.unit, h.n)+h.suffix, "huge: "+h.name))
		}
		r.Subspace("hostile sizes: megabytes of opening brackets / calls / hashes / blocks / tag openers / line comments / prefix operators", int64(len(hs)), true)
		lap("huge")
	}
}

// FuzzParse is the native coverage-guided target (thorough tier only).
func FuzzParse(f *testing.F) {
	for _, s := range corpus.Templates() {
		f.Add([]byte(s))
	}
	for _, h := range hostile {
		f.Add([]byte("<% " + h + " %>"))
		f.Add([]byte("a" + h))
	}
	for _, toks := range catalogue {
		f.Add([]byte(strings.Join(toks, " ")))
	}
	f.Fuzz(func(t *testing.T, b []byte) {
		if len(b) > maxLen {
			b = b[:maxLen]
		}
		src := string(b)
		res := vk.Safe(func() (string, error) {
			prog, err := parser.Parse(src)
			if err == nil && prog != nil {
				_ = prog.String()
			}
			return "", nil
		})
		if res.Panicked() {
			t.Fatalf("parser.Parse(%q): %s", src, res)
		}
	})
}
