module verif

go 1.23

toolchain go1.23.5

require (
	github.com/gobuffalo/plush/v5 v5.0.0-00010101000000-000000000000
	pgregory.net/rapid v1.3.0
)

require github.com/gobuffalo/flect v1.0.2 // indirect

replace github.com/gobuffalo/plush/v5 => /repo
