// Package corpus holds valid (and a few deliberately invalid) templates
// harvested once from gobuffalo/plush's own tests and README. They seed the
// mutation generators and the native fuzzers.
package corpus

import (
	_ "embed"
	"encoding/json"
)

//go:embed templates.json
var raw []byte

// Templates returns the harvested templates.
func Templates() []string {
	var out []string
	if err := json.Unmarshal(raw, &out); err != nil {
		panic(err)
	}
	return out
}
