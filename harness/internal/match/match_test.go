package match

import (
	"html/template"
	"testing"
)

func TestMatcher(t *testing.T) {
	for _, p := range []string{"", "a", "<b>&'\"", "&amp;", "\x00<", "é漢\xff<", "&&;&lt"} {
		out := "x" + template.HTMLEscapeString(p) + "y" + p
		if m := Match([]Part{L("x"), E(p), L("y"), R(p)}, out); m != "" {
			t.Errorf("payload %q: %s", p, m)
		}
	}
	bad := []struct {
		parts []Part
		out   string
	}{
		{[]Part{E("<")}, "<"},
		{[]Part{E("<")}, "&amp;lt;"},
		{[]Part{E("a<")}, "a"},
		{[]Part{E("a")}, "aa"},
		{[]Part{E("&")}, "&"},
		{[]Part{R("<")}, "&lt;"},
		{[]Part{L("a"), E("b")}, "ba"},
		{[]Part{E("'")}, "'"},
	}
	for _, b := range bad {
		if m := Match(b.parts, b.out); m == "" {
			t.Errorf("%v vs %q: accepted", b.parts, b.out)
		}
	}
}

func TestCanon(t *testing.T) {
	same := [][2]string{{`q&#34;&amp;&#39;`, `q&quot;&#38;&#x27;`}, {`a&lt;b`, `a&#60;b`}, {`a&LT;b`, `a&#x3C;b`}, {"plain", "plain"}, {"&nbsp;&copy;", "&nbsp;&copy;"}}
	for _, p := range same {
		if !SameText(p[0], p[1]) {
			t.Errorf("%q and %q should be the same text: %q vs %q", p[0], p[1], Canon(p[0]), Canon(p[1]))
		}
	}
	diff := [][2]string{{`a<b`, `a&lt;b`}, {`&amp;lt;`, `&lt;`}, {`&quot;`, `&#39;`}, {"a&b", "a&amp;b"}, {"&nbsp;", " "}}
	for _, p := range diff {
		if SameText(p[0], p[1]) {
			t.Errorf("%q and %q must differ", p[0], p[1])
		}
	}
}
