package match

import (
	"html/template"
	"testing"
)

func TestMatcher(t *testing.T) {
	for _, p := range []string{"", "a", "<b>&'\"", "&amp;", "\x00<", "é漢\xff<", "&&;&lt"} {
		out := "x" + template.HTMLEscapeString(p) + "y" + p
		if m := Match([]Part{L("x"), E(p), L("y"), R(p)}, out); m != "" {
			t.Errorf("payload %q: %s", p, m)
		}
	}
	bad := []struct {
		parts []Part
		out   string
	}{
		{[]Part{E("<")}, "<"},
		{[]Part{E("<")}, "&amp;lt;"},
		{[]Part{E("a<")}, "a"},
		{[]Part{E("a")}, "aa"},
		{[]Part{E("&")}, "&"},
		{[]Part{R("<")}, "&lt;"},
		{[]Part{L("a"), E("b")}, "ba"},
		{[]Part{E("'")}, "'"},
	}
	for _, b := range bad {
		if m := Match(b.parts, b.out); m == "" {
			t.Errorf("%v vs %q: accepted", b.parts, b.out)
		}
	}
}
