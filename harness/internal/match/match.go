// Package match compares rendered output with an expectation made of parts:
// literal bytes, payloads that must appear HTML-escaped, and payloads that
// must appear verbatim. Escaped payloads are matched by DECODING: any correct
// spelling of a character reference is accepted (&#34; or &quot;, decimal or
// hex, over-escaping of harmless characters), a raw special character, a
// dropped, duplicated or doubly-escaped payload is rejected.
package match

import (
	"fmt"
	"html"
	"strings"
)

type Kind int

const (
	Lit Kind = iota // literal text: byte for byte
	Esc             // payload that must be entity-encoded
	Raw             // trusted payload: byte for byte
)

type Part struct {
	Kind Kind
	S    string
}

func L(s string) Part { return Part{Lit, s} }
func E(s string) Part { return Part{Esc, s} }
func R(s string) Part { return Part{Raw, s} }

const specials = "<>&'\""

// Match reports "" if out is a rendering of parts, else a description of the first mismatch.
func Match(parts []Part, out string) string {
	pos := 0
	for pi, p := range parts {
		switch p.Kind {
		case Lit, Raw:
			if !strings.HasPrefix(out[pos:], p.S) {
				return fmt.Sprintf("part %d (%s %q) not found at offset %d: output continues %q", pi, kindName(p.Kind), p.S, pos, clip(out[pos:]))
			}
			pos += len(p.S)
		case Esc:
			pay := p.S
			for len(pay) > 0 {
				if pos >= len(out) {
					return fmt.Sprintf("part %d (escaped %q): output ends while %q is still expected", pi, p.S, clip(pay))
				}
				if out[pos] == '&' {
					end := strings.IndexByte(out[pos:], ';')
					if end < 0 || end > 12 {
						return fmt.Sprintf("part %d (escaped %q): raw & at offset %d (%q)", pi, p.S, pos, clip(out[pos:]))
					}
					ref := out[pos : pos+end+1]
					dec := html.UnescapeString(ref)
					if dec == ref {
						return fmt.Sprintf("part %d (escaped %q): %q at offset %d is not a character reference", pi, p.S, ref, pos)
					}
					switch {
					case strings.HasPrefix(pay, dec):
						pay = pay[len(dec):]
					case dec == "�" && pay[0] == 0:
						pay = pay[1:]
					default:
						return fmt.Sprintf("part %d (escaped %q): reference %q decodes to %q but %q is expected", pi, p.S, ref, dec, clip(pay))
					}
					pos += end + 1
					continue
				}
				if pay[0] == 0 && strings.HasPrefix(out[pos:], "�") {
					pay = pay[1:]
					pos += len("�")
					continue
				}
				if strings.IndexByte(specials, out[pos]) >= 0 {
					return fmt.Sprintf("part %d (escaped %q): raw %q at offset %d", pi, p.S, out[pos], pos)
				}
				if out[pos] != pay[0] {
					return fmt.Sprintf("part %d (escaped %q): byte %q at offset %d, expected %q", pi, p.S, out[pos], pos, pay[0])
				}
				pos++
				pay = pay[1:]
			}
		}
	}
	if pos != len(out) {
		return fmt.Sprintf("unexpected trailing output %q at offset %d", clip(out[pos:]), pos)
	}
	return ""
}

func kindName(k Kind) string {
	switch k {
	case Lit:
		return "literal"
	case Esc:
		return "escaped"
	}
	return "verbatim"
}

func clip(s string) string {
	if len(s) > 40 {
		return s[:40] + "…"
	}
	return s
}

// Describe prints parts compactly (for messages and hashing).
func Describe(parts []Part) string {
	var sb strings.Builder
	for _, p := range parts {
		switch p.Kind {
		case Lit:
			fmt.Fprintf(&sb, "L%q ", p.S)
		case Esc:
			fmt.Fprintf(&sb, "E%q ", p.S)
		default:
			fmt.Fprintf(&sb, "R%q ", p.S)
		}
	}
	return sb.String()
}

// Canon rewrites every character reference that stands for one of < > & ' " into one canonical spelling, so that
// two renderings can be compared without fixing WHICH correct spelling an escaper uses (&#34; or &quot;, decimal or
// hex, upper or lower case). Everything else, raw specials included, is left as it is.
func Canon(s string) string {
	if !strings.Contains(s, "&") {
		return s
	}
	var sb strings.Builder
	for i := 0; i < len(s); {
		if s[i] == '&' {
			if end := strings.IndexByte(s[i:], ';'); end > 0 && end <= 12 {
				ref := s[i : i+end+1]
				if dec := html.UnescapeString(ref); len(dec) == 1 && strings.Contains(specials, dec) {
					fmt.Fprintf(&sb, "&#%d;", dec[0])
					i += end + 1
					continue
				}
			}
		}
		sb.WriteByte(s[i])
		i++
	}
	return sb.String()
}

// SameText reports whether two renderings are equal up to the spelling of character references for the five specials.
func SameText(a, b string) bool { return a == b || Canon(a) == Canon(b) }
