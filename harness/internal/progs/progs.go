// Package progs generates diverse well-formed programs over the model AST:
// text, output tags, silent tags, let, if/else-if/else, for with break and
// continue, user functions, array and hash literals, indexing, helper calls,
// partials, contentFor/contentOf and block helpers. It is shared by the
// properties that need "all constructs" (C05, C13, C14, C18). A fault hook lets
// a property plant failing expressions at generated positions.
package progs

import (
	"fmt"
	"html/template"
	"sort"

	"verif/internal/model"

	plush "github.com/gobuffalo/plush/v5"
	"pgregory.net/rapid"
)

type Fam int

const (
	Int Fam = iota
	Str
	Bool
	Any
)

// Options steer the generator.
type Options struct {
	MaxDepth  int
	FaultRate int // one in FaultRate leaves becomes a fault (0: never)
	// Faults are expressions whose evaluation fails (or is tolerated only in
	// condition position); drawn uniformly.
	Faults []model.Expr
	// NoCompose disables partial / contentFor / block-helper nodes.
	NoCompose bool
	// NoLoopsCtl disables break/continue.
	NoLoopCtl bool
}

// Data returns the fixed context data the generated programs refer to (fresh copy).
func Data() map[string]interface{} {
	return map[string]interface{}{
		"i0": 0, "i1": 1, "i2": 2, "i7": 7,
		"s1": "a<b", "s2": "q\"&'", "s3": "plain",
		"t": true, "f": false,
		"arr": []interface{}{10, 20, 30}, "two": []interface{}{1, 2}, "words": []interface{}{"w<1>", "w2"},
	}
}

type Gen struct {
	T        *rapid.T
	Opt      Options
	Partials map[string][]model.Node
	seq      int
	// names visible in the current scope chain, by family
	scopes []map[string]Fam
	Faults int // number of faults planted
}

func New(t *rapid.T, opt Options) *Gen {
	g := &Gen{T: t, Opt: opt, Partials: map[string][]model.Node{}}
	top := map[string]Fam{"i0": Int, "i1": Int, "i2": Int, "i7": Int, "s1": Str, "s2": Str, "s3": Str, "t": Bool, "f": Bool}
	g.scopes = []map[string]Fam{top}
	return g
}

func (g *Gen) next(prefix string) string {
	g.seq++
	return fmt.Sprintf("%s%d", prefix, g.seq)
}

func (g *Gen) push()                { g.scopes = append(g.scopes, map[string]Fam{}) }
func (g *Gen) pop()                 { g.scopes = g.scopes[:len(g.scopes)-1] }
func (g *Gen) bind(n string, f Fam) { g.scopes[len(g.scopes)-1][n] = f }
func (g *Gen) varsOf(f Fam) []string {
	seen := map[string]bool{}
	var out []string
	for i := len(g.scopes) - 1; i >= 0; i-- {
		for n, nf := range g.scopes[i] {
			if !seen[n] {
				seen[n] = true
				if nf == f {
					out = append(out, n)
				}
			}
		}
	}
	sort.Strings(out)
	return out
}

func (g *Gen) fault() (model.Expr, bool) {
	if g.Opt.FaultRate <= 0 || len(g.Opt.Faults) == 0 {
		return nil, false
	}
	if rapid.IntRange(1, g.Opt.FaultRate).Draw(g.T, "fault?") != 1 {
		return nil, false
	}
	g.Faults++
	return g.Opt.Faults[rapid.IntRange(0, len(g.Opt.Faults)-1).Draw(g.T, "fault")], true
}

func (g *Gen) leaf(f Fam) model.Expr {
	t := g.T
	if fx, ok := g.fault(); ok {
		return fx
	}
	if f == Any {
		f = Fam(rapid.IntRange(0, 2).Draw(t, "fam"))
	}
	vars := g.varsOf(f)
	if len(vars) > 0 && rapid.Bool().Draw(t, "var") {
		return model.Var{Name: rapid.SampledFrom(vars).Draw(t, "v")}
	}
	switch f {
	case Int:
		return model.Lit{V: rapid.IntRange(0, 9).Draw(t, "i")}
	case Str:
		return model.Lit{V: rapid.SampledFrom([]string{"x", "<i>", "it's", "a b", "", "&amp;", "é"}).Draw(t, "s")}
	}
	return model.Lit{V: rapid.Bool().Draw(t, "b")}
}

// Expr generates an expression of family f.
func (g *Gen) Expr(f Fam, d int) model.Expr {
	t := g.T
	if d <= 0 || rapid.IntRange(0, 2).Draw(t, "leaf?") == 0 {
		return g.leaf(f)
	}
	if f == Any {
		f = Fam(rapid.IntRange(0, 2).Draw(t, "fam"))
	}
	switch f {
	case Int:
		switch rapid.IntRange(0, 5).Draw(t, "ik") {
		case 0, 1:
			return model.Bin{Op: rapid.SampledFrom([]string{"+", "-", "*"}).Draw(t, "op"), L: g.Expr(Int, d-1), R: g.Expr(Int, d-1)}
		case 2:
			return model.Idx{X: model.Var{Name: "arr"}, I: model.Lit{V: rapid.IntRange(0, 2).Draw(t, "ix")}}
		case 3:
			return model.Call{Fn: "id", Args: []model.Expr{g.Expr(Int, d-1)}}
		case 4:
			return model.Idx{X: model.Arr{Els: []model.Expr{g.Expr(Int, d-1), g.Expr(Int, d-1)}}, I: model.Lit{V: rapid.IntRange(0, 1).Draw(t, "ix")}}
		default:
			return model.Idx{X: model.Hash{KVs: []model.KV{{K: "a", V: g.Expr(Int, d-1)}, {K: "b", V: g.Expr(Int, d-1)}}}, I: model.Lit{V: rapid.SampledFrom([]string{"a", "b"}).Draw(t, "hk")}}
		}
	case Str:
		switch rapid.IntRange(0, 3).Draw(t, "sk") {
		case 0, 1:
			return model.Bin{Op: "+", L: g.Expr(Str, d-1), R: g.Expr(Fam(rapid.IntRange(0, 2).Draw(t, "rf")), d-1)}
		case 2:
			return model.Call{Fn: "id", Args: []model.Expr{g.Expr(Str, d-1)}}
		default:
			return model.Idx{X: model.Var{Name: "words"}, I: model.Lit{V: rapid.IntRange(0, 1).Draw(t, "ix")}}
		}
	}
	switch rapid.IntRange(0, 7).Draw(t, "bk") {
	case 0:
		return model.Bin{Op: rapid.SampledFrom([]string{"<", "<=", ">", ">=", "==", "!="}).Draw(t, "op"), L: g.Expr(Int, d-1), R: g.Expr(Int, d-1)}
	case 1:
		return model.Bin{Op: rapid.SampledFrom([]string{"==", "!="}).Draw(t, "op"), L: g.Expr(Str, d-1), R: g.Expr(Str, d-1)}
	case 2:
		return model.Not{X: g.Expr(Any, d-1)}
	case 3, 4:
		return model.Bin{Op: rapid.SampledFrom([]string{"&&", "||"}).Draw(t, "op"), L: g.Expr(Any, d-1), R: g.Expr(Any, d-1)}
	case 5:
		return model.Bin{Op: "==", L: model.Var{Name: "unset"}, R: model.Lit{V: nil}}
	case 6:
		return model.Bin{Op: "~=", L: g.Expr(Str, d-1), R: model.Lit{V: rapid.SampledFrom([]string{"a", "^x", "i"}).Draw(t, "re")}}
	}
	return model.Bin{Op: rapid.SampledFrom([]string{"==", "!="}).Draw(t, "op"), L: g.Expr(Bool, d-1), R: g.Expr(Bool, d-1)}
}

func (g *Gen) text() model.Node { return model.Text{S: g.next(" t")} }

func (g *Gen) data(d int) []model.KV {
	n := rapid.IntRange(0, 2).Draw(g.T, "ndata")
	kvs := []model.KV{}
	for i := 0; i < n; i++ {
		f := Fam(rapid.IntRange(0, 2).Draw(g.T, "dfam"))
		k := fmt.Sprintf("d%d", i)
		kvs = append(kvs, model.KV{K: k, V: g.Expr(f, d)})
		// bound inside the construct; registered by the caller after push
	}
	return kvs
}

// Nodes generates a block.
func (g *Gen) Nodes(depth int, inLoop bool) []model.Node {
	t := g.T
	var out []model.Node
	n := rapid.IntRange(1, 5).Draw(t, "nodes")
	for i := 0; i < n; i++ {
		k := rapid.IntRange(0, 15).Draw(t, "node")
		if depth <= 0 && k >= 6 {
			k = k % 6
		}
		switch k {
		case 0, 1:
			out = append(out, g.text())
		case 2, 3:
			out = append(out, model.Emit{X: g.Expr(Any, 2)})
		case 4: // let
			f := Fam(rapid.IntRange(0, 2).Draw(t, "lfam"))
			name := g.next("l")
			out = append(out, model.Code{S: model.LetS{Name: name, X: g.Expr(f, 2)}})
			g.bind(name, f)
		case 5: // silent expression tag
			out = append(out, model.Code{S: model.ExprS{X: g.Expr(Any, 2)}})
		case 6, 7: // emitting if chain
			f := &model.If{Cond: g.Expr(Any, 2)}
			branch := func() []model.Node {
				g.push() // bookkeeping only: names let-bound in a branch are not relied on afterwards
				defer g.pop()
				return g.Nodes(depth-1, inLoop)
			}
			f.Then = branch()
			for j := rapid.IntRange(0, 2).Draw(t, "elseifs"); j > 0; j-- {
				f.ElseIfs = append(f.ElseIfs, model.ElseIf{Cond: g.Expr(Any, 2), Then: branch()})
			}
			if rapid.Bool().Draw(t, "else") {
				f.HasElse = true
				f.Else = branch()
			}
			// names let-bound inside the branches may or may not exist afterwards:
			// the generator simply does not register them (they are created in a
			// throw-away frame)
			out = append(out, model.EmitIf{If: f})
		case 8, 9: // for loop
			g.push()
			vn, kn := g.next("e"), ""
			var iter model.Expr
			var ef Fam
			switch rapid.IntRange(0, 3).Draw(t, "iter") {
			case 0:
				iter, ef = model.Var{Name: "arr"}, Int
			case 1:
				iter, ef = model.Var{Name: "two"}, Int
			case 2:
				iter, ef = model.Var{Name: "words"}, Str
			default:
				iter, ef = model.Arr{Els: []model.Expr{g.Expr(Int, 1), g.Expr(Int, 1)}}, Int
			}
			if rapid.Bool().Draw(t, "key") {
				kn = g.next("k")
				g.bind(kn, Int)
			}
			g.bind(vn, ef)
			body := g.Nodes(depth-1, true)
			if !g.Opt.NoLoopCtl && rapid.IntRange(0, 2).Draw(t, "ctl") == 0 {
				var c model.Stmt = model.BreakS{}
				if rapid.Bool().Draw(t, "cont") {
					c = model.ContinueS{}
				}
				guard := model.Code{S: model.IfS{If: &model.If{Cond: g.Expr(Bool, 1), Then: []model.Node{model.Code{S: c}}}}}
				pos := rapid.IntRange(0, len(body)).Draw(t, "ctlpos")
				body = append(body[:pos:pos], append([]model.Node{guard}, body[pos:]...)...)
			}
			g.pop()
			out = append(out, model.EmitFor{For: &model.For{Key: kn, Val: vn, Iter: iter, Body: body}})
		case 10: // user function defined and called on the spot
			fn := g.next("fn")
			np := rapid.IntRange(0, 2).Draw(t, "np")
			g.push()
			var params []string
			var args []model.Expr
			var fams []Fam
			for j := 0; j < np; j++ {
				f := Fam(rapid.IntRange(0, 2).Draw(t, "pfam"))
				fams = append(fams, f)
				params = append(params, g.next("p"))
			}
			g.pop()
			for _, f := range fams {
				args = append(args, g.Expr(f, 1)) // evaluated in the caller's scope
			}
			g.push()
			for j, p := range params {
				g.bind(p, fams[j])
			}
			var body []model.Node
			if rapid.Bool().Draw(t, "returns") {
				body = []model.Node{model.Code{S: model.ReturnS{X: g.Expr(Any, 2)}}}
			} else {
				body = g.Nodes(depth-1, false)
			}
			g.pop()
			out = append(out, model.Code{S: model.LetS{Name: fn, X: model.FnLit{Params: params, Body: body}}},
				model.Emit{X: model.Call{Fn: fn, Args: args}})
		case 11: // partial
			if g.Opt.NoCompose {
				out = append(out, g.text())
				continue
			}
			pn := g.next("part")
			data := g.data(1)
			g.push()
			for i, kv := range data {
				_ = i
				g.bind(kv.K, famOf(kv.V))
			}
			g.Partials[pn] = g.Nodes(depth-1, false)
			g.pop()
			out = append(out, model.EmitPartial{Name: pn, Data: data})
		case 12: // contentFor + contentOf
			if g.Opt.NoCompose {
				out = append(out, g.text())
				continue
			}
			cn := g.next("cf")
			data := g.data(1)
			g.push()
			for _, kv := range data {
				g.bind(kv.K, famOf(kv.V))
			}
			body := g.Nodes(depth-1, false)
			g.pop()
			out = append(out, model.ContentFor{Name: cn, Body: body}, model.EmitContentOf{Name: cn, Data: data})
		case 13: // block helper
			if g.Opt.NoCompose {
				out = append(out, g.text())
				continue
			}
			g.push()
			body := g.Nodes(depth-1, false)
			g.pop()
			out = append(out, model.EmitBlock{Helper: "blk", Body: body})
		case 14: // array emitted whole / comment
			if rapid.Bool().Draw(t, "cmt") {
				out = append(out, model.Comment{S: " note " + g.next("c") + " "})
			} else {
				out = append(out, model.Emit{X: model.Arr{Els: []model.Expr{g.Expr(Str, 1), g.Expr(Int, 1)}}})
			}
		case 15: // control statement directly in a loop body
			if inLoop && !g.Opt.NoLoopCtl && rapid.IntRange(0, 3).Draw(t, "direct") == 0 {
				out = append(out, model.Code{S: model.ContinueS{}})
			} else {
				out = append(out, g.text())
			}
		}
	}
	return out
}

// famOf guesses the family of a generated data expression (for scope bookkeeping only).
func famOf(e model.Expr) Fam {
	switch t := e.(type) {
	case model.Lit:
		switch t.V.(type) {
		case int:
			return Int
		case string:
			return Str
		case bool:
			return Bool
		}
	case model.Bin:
		switch t.Op {
		case "+", "-", "*":
			return famOf(t.L)
		}
		return Bool
	case model.Not:
		return Bool
	}
	return Any
}

// Helpers shared by model and plush.
func Helpers(extra map[string]model.Helper) map[string]model.Helper {
	h := map[string]model.Helper{
		"id": func(a []interface{}) (interface{}, error) { return a[0], nil },
	}
	for k, v := range extra {
		h[k] = v
	}
	return h
}

// Context builds the plush context for a generated program: data, helpers, the
// partial feeder and the block helpers.
func Context(data map[string]interface{}, helpers map[string]model.Helper, partialText map[string]string) *plush.Context {
	ctx := model.Context(data, helpers)
	ctx.Set("partialFeeder", func(name string) (string, error) {
		s, ok := partialText[name]
		if !ok {
			return "", fmt.Errorf("no partial %q", name)
		}
		return s, nil
	})
	ctx.Set("blk", func(help plush.HelperContext) (template.HTML, error) {
		s, err := help.BlockWith(help.New())
		return template.HTML(s), err
	})
	return ctx
}

// PartialText prints every partial with the given printer.
func PartialText(p model.Printer, partials map[string][]model.Node) map[string]string {
	out := map[string]string{}
	for n, body := range partials {
		out[n] = p.Nodes(body)
	}
	return out
}
