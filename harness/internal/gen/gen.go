// Package gen holds generators shared by several properties.
package gen

import (
	"strings"

	"pgregory.net/rapid"
)

// Fragments that payload strings are assembled from: the five HTML specials,
// entity and tag look-alikes, quotes, multi-byte and combining runes, invalid
// UTF-8 and filler.
var frags = []string{
	"<", ">", "&", "'", "\"",
	"&amp;", "&lt", "&lt;", "&#60;", "&#x3c;", "&quot;", "&#39;", "&",
	"<%= x %>", "%>", "<%", "<%#", "<script>", "</script>", "<b>", "</b>", "<!--", "-->",
	"`", "\\", "\\\"", "#", "{", "}", "(", ")", "[", "]", "=", ";", ":", ",", "+", "%", "$", "@",
	"é", "漢", "e\u0301", "\u2028", "\u2029", "\u00a0", "😀", "\ufeff",
	"\xff", "\xc3", "\xe6\xbc", "\x80",
	"\n", "\r\n", "\t", " ", "\x01", "\x7f",
	"a", "b", "z", "0", "9", "A", "hello", "x y",
}

// Payload draws a string of 0..12 fragments (0..~40 bytes).
func Payload(t *rapid.T, label string) string {
	n := rapid.IntRange(0, 12).Draw(t, label+"_n")
	var sb strings.Builder
	for i := 0; i < n; i++ {
		if rapid.IntRange(0, 7).Draw(t, label+"_k") == 0 {
			sb.WriteByte(rapid.Byte().Draw(t, label+"_b"))
			continue
		}
		sb.WriteString(rapid.SampledFrom(frags).Draw(t, label+"_f"))
	}
	return sb.String()
}

// Fixed payloads for the exhaustive route sweeps.
var Fixed = []string{
	"", "plain", "<", ">", "&", "'", "\"", "<b>&'\"</b>", "&amp;", "&lt;b&gt;", "&#60;", "<%= x %>", "a%>b",
	"é漢e\u0301", "\xff<\xc3", "<script>alert('x & \"y\"')</script>", "\x00<", "`\\#{}", "a\nb\r\nc", "&&<<>>''\"\"",
}

// HasSpecial reports whether s contains one of the five HTML specials.
func HasSpecial(s string) bool { return strings.ContainsAny(s, "<>&'\"") }
