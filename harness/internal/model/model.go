// Package model is an independent reference for the subset of plush that the
// properties describe. It has its own small AST, a printer to plush source and
// an interpreter written from the property statements (C02, C05–C09, C16), not
// from compiler.go. Wherever the statements do not fix a meaning the interpreter
// answers Unspecified and the caller drops the case.
package model

import (
	"fmt"
	"html/template"
	"math"
	"math/big"
	"regexp"
	"strings"
)

// ---- AST -------------------------------------------------------------------

type Expr interface{}

type (
	Lit struct{ V interface{} } // int, float64, string, bool, nil
	Var struct{ Name string }
	Bin struct {
		Op   string
		L, R Expr
	}
	Not  struct{ X Expr }
	Call struct {
		Fn       string
		Args     []Expr
		Block    []Node
		HasBlock bool
	}
	Arr   struct{ Els []Expr }
	Idx   struct{ X, I Expr }
	Hash  struct{ KVs []KV } // {k: v, ...} (unique keys)
	Paren struct{ X Expr }   // redundant parentheses, printing only
	FnLit struct {
		Params []string
		Body   []Node
	}
)

// Node is a template-level item; inside blocks the same items appear.
type Node interface{}

type (
	Text    struct{ S string }
	Emit    struct{ X Expr }   // <%= expr %>
	EmitIf  struct{ If *If }   // <%= if (...) { %> ... <% } %>
	EmitFor struct{ For *For } // <%= for (...) in ... { %> ... <% } %>
	Code    struct{ S Stmt }   // <% stmt %>
	Comment struct{ S string } // <%# ... %>
)

// Composition nodes (C09, C17). KV is one entry of a data hash literal.
type (
	KV struct {
		K string
		V Expr
	}
	EmitPartial struct {
		Name string
		Data []KV
		Var  string // non-empty: the data is the hash held in this variable (partial("name", opts))
	} // <%= partial("name", {k: v}) %>
	ContentFor struct {
		Name string
		Body []Node
	} // <% contentFor("name") { %>body<% } %>
	EmitContentOf struct {
		Name string
		Data []KV
		Var  string // non-empty: the data is the hash held in this variable
	} // <%= contentOf("name", {k: v}) %>
	EmitBlock struct {
		Helper string
		Data   []KV
		Body   []Node
	} // <%= helper({k: v}) { %>body<% } %>: block rendered in a fresh child scope (+data)
)

type Stmt interface{}

type (
	ExprS struct{ X Expr }
	LetS  struct {
		Name string
		X    Expr
	}
	AssignS struct {
		Name string
		X    Expr
	}
	ReturnS   struct{ X Expr }
	BreakS    struct{}
	ContinueS struct{}
	IfS       struct{ If *If }   // silent if
	ForS      struct{ For *For } // silent for
)

type If struct {
	Cond    Expr
	Then    []Node
	ElseIfs []ElseIf
	Else    []Node
	HasElse bool
}

type ElseIf struct {
	Cond Expr
	Then []Node
}

type For struct {
	Key, Val string // Key may be ""
	Iter     Expr
	Body     []Node
}

// ---- values -----------------------------------------------------------------

// HTML is a trusted value (emitted verbatim).
type HTML string

type Closure struct {
	Params []string
	Body   []Node
}

// Helper is a Go function known to both sides.
type Helper func(args []interface{}) (interface{}, error)

// ---- interpreter --------------------------------------------------------------

type scope struct {
	vars  map[string]interface{}
	outer *scope
	// stale: names let-bound in an EARLIER iteration of the loop this scope
	// belongs to. Whether such a binding is still visible in the next
	// iteration is not fixed by the statements, so reading one is Unspecified.
	stale map[string]bool
	hit   *bool // set when a stale name was read
}

func (s *scope) lookup(n string) (interface{}, bool) {
	for c := s; c != nil; c = c.outer {
		if v, ok := c.vars[n]; ok {
			if c.stale[n] && c.hit != nil {
				*c.hit = true
			}
			if v == nil {
				return nil, false // a nil binding is an unset name (C10)
			}
			return v, true
		}
	}
	return nil, false
}

type stored struct {
	body []Node
	def  *scope
}

type Interp struct {
	Helpers  map[string]Helper
	Partials map[string][]Node
	sc       *scope
	unspec   string
	concatGo bool   // string + float spells the float as Go's %v does, not as FloatText says
	lenient  string // set when an unknown identifier raised INSIDE an operand (not the operand itself) was forgiven
	steps    int
}

// Result of running a program.
type Result struct {
	Out    string
	Err    string // non-empty: the render must fail
	Unspec string // non-empty: the statements do not fix the outcome; drop the case
	// Lenient is non-empty when the run forgave an unknown identifier that was raised inside a condition or operand
	// (in a called function's body, in a nested expression) and not by the condition or operand being that
	// identifier itself. The statements name the latter only: an engine that fails the render there, with the unknown
	// identifier's error, is as right as one that goes on. Callers accept such a failure and otherwise compare as usual.
	Lenient string
}

type ctl int

const (
	ctlNone ctl = iota
	ctlBreak
	ctlContinue
	ctlReturn
)

type rtErr struct{ msg string }

func (e *rtErr) Error() string { return e.msg }

type unknownIdent struct{ name string }

func (e *unknownIdent) Error() string { return "unknown identifier " + e.name }

func errf(f string, a ...interface{}) error { return &rtErr{fmt.Sprintf(f, a...)} }

// Run interprets a template given the initial data (top-level scope).
func Run(prog []Node, data map[string]interface{}, helpers map[string]Helper) Result {
	return RunWith(prog, data, helpers, nil)
}

// RunWith is Run with a table of partials (name -> template).
func RunWith(prog []Node, data map[string]interface{}, helpers map[string]Helper, partials map[string][]Node) Result {
	return RunOpt(prog, data, helpers, partials, false)
}

// RunOpt is RunWith with one choice left open by the statements made explicit. concatGo: `string + float` spells the
// float as Go's %v does; otherwise as FloatText says (what an output tag prints). "The printed form of x" can be read
// either way; a check that cares accepts both.
func RunOpt(prog []Node, data map[string]interface{}, helpers map[string]Helper, partials map[string][]Node, concatGo bool) Result {
	in := &Interp{Helpers: helpers, Partials: partials, sc: &scope{vars: map[string]interface{}{}}, concatGo: concatGo}
	for k, v := range data {
		in.sc.vars[k] = v
	}
	var sb strings.Builder
	c, _, err := in.nodes(prog, &sb, false, false)
	if in.unspec != "" {
		return Result{Unspec: in.unspec}
	}
	if err != nil {
		return Result{Err: err.Error(), Lenient: in.lenient}
	}
	if c != ctlNone {
		return Result{Unspec: "control statement escaped to the top level"}
	}
	return Result{Out: sb.String(), Lenient: in.lenient}
}

func (in *Interp) unspecified(f string, a ...interface{}) {
	if in.unspec == "" {
		in.unspec = fmt.Sprintf(f, a...)
	}
}

// nodes runs a node list, appending output to sb. inLoop / inFn say which
// control statements are meaningful here.
func (in *Interp) nodes(ns []Node, sb *strings.Builder, inLoop, inFn bool) (ctl, interface{}, error) {
	for _, n := range ns {
		in.steps++
		if in.steps > 200000 {
			in.unspecified("step budget")
			return ctlNone, nil, nil
		}
		switch t := n.(type) {
		case Text:
			sb.WriteString(t.S)
		case Comment:
		case Emit:
			v, err := in.eval(t.X)
			if err != nil {
				return ctlNone, nil, err
			}
			in.write(sb, v)
		case EmitIf:
			c, rv, err := in.runIf(t.If, sb, inLoop, inFn)
			if err != nil || c != ctlNone {
				return c, rv, err
			}
		case EmitFor:
			if err := in.runFor(t.For, sb, inFn); err != nil {
				return ctlNone, nil, err
			}
		case Code:
			c, rv, err := in.stmt(t.S, inLoop, inFn)
			if err != nil || c != ctlNone {
				return c, rv, err
			}
		case EmitPartial:
			body, ok := in.Partials[t.Name]
			if !ok {
				return ctlNone, nil, errf("unknown partial %s", t.Name)
			}
			data, err := in.heldData(t.Data, t.Var)
			if err != nil {
				return ctlNone, nil, err
			}
			if err := in.inChild(in.sc, data, body, sb); err != nil {
				return ctlNone, nil, err
			}
		case ContentFor:
			// emits nothing; the block is remembered in the current scope
			in.sc.vars["contentFor:"+t.Name] = &stored{body: t.Body, def: in.sc}
			delete(in.sc.stale, "contentFor:"+t.Name)
		case EmitContentOf:
			v, ok := in.sc.lookup("contentFor:" + t.Name)
			if !ok {
				return ctlNone, nil, errf("missing contentOf block %s", t.Name)
			}
			st := v.(*stored)
			if st.def != in.sc && !constBody(st.body) {
				// whether a stored block sees the definition scope or the use
				// scope is not fixed by the statements; a block of literal
				// text renders the same under either reading
				in.unspecified("contentOf used in another scope than its contentFor")
				return ctlNone, nil, nil
			}
			data, err := in.heldData(t.Data, t.Var)
			if err != nil {
				return ctlNone, nil, err
			}
			if err := in.inChild(st.def, data, st.body, sb); err != nil {
				return ctlNone, nil, err
			}
		case EmitBlock:
			if err := in.inChild(in.sc, t.Data, t.Body, sb); err != nil {
				return ctlNone, nil, err
			}
		default:
			panic(fmt.Sprintf("model: unknown node %T", n))
		}
	}
	return ctlNone, nil, nil
}

// constBody reports whether a block consists of literal text only.
func constBody(ns []Node) bool {
	for _, n := range ns {
		if _, ok := n.(Text); !ok {
			return false
		}
	}
	return true
}

// inChild renders body in a fresh child of parent extended with data (whose
// values are evaluated in the current scope); what it binds is gone afterwards.
// heldData: the data of a partial / contentOf call that names a variable holding a hash: its entries as they are at
// the call (the construct gets its own bindings; the hash itself is not touched by what the construct lets).
func (in *Interp) heldData(data []KV, name string) ([]KV, error) {
	if name == "" {
		return data, nil
	}
	v, ok := in.sc.lookup(name)
	if !ok {
		return nil, &unknownIdent{name}
	}
	om, ok := v.(*OrderedMap)
	if !ok {
		in.unspecified("data of a partial that is not a hash")
		return nil, nil
	}
	var out []KV
	for _, k := range om.Keys {
		ks, ok := k.(string)
		if !ok {
			in.unspecified("data hash with a key that is not a string")
			return nil, nil
		}
		out = append(out, KV{K: ks, V: Lit{V: om.Vals[k]}})
	}
	return out, nil
}

func (in *Interp) inChild(parent *scope, data []KV, body []Node, sb *strings.Builder) error {
	child := &scope{vars: map[string]interface{}{}, outer: parent}
	for _, kv := range data {
		v, err := in.eval(kv.V)
		if err != nil {
			return err
		}
		child.vars[kv.K] = v
	}
	outer := in.sc
	in.sc = child
	defer func() { in.sc = outer }()
	var tmp strings.Builder
	c, _, err := in.nodes(body, &tmp, false, false)
	if err != nil {
		return err
	}
	if c != ctlNone {
		in.unspecified("control statement escaping a partial / content / helper block")
	}
	sb.WriteString(tmp.String())
	return nil
}

func (in *Interp) stmt(s Stmt, inLoop, inFn bool) (ctl, interface{}, error) {
	switch t := s.(type) {
	case ExprS:
		_, err := in.eval(t.X)
		return ctlNone, nil, err
	case LetS:
		v, err := in.eval(t.X)
		if err != nil {
			return ctlNone, nil, err
		}
		in.sc.vars[t.Name] = v
		delete(in.sc.stale, t.Name)
		return ctlNone, nil, nil
	case AssignS:
		v, err := in.eval(t.X)
		if err != nil {
			return ctlNone, nil, err
		}
		// assignment to a name that is not set is an error; where the
		// assignment lands when the name lives in an outer scope is not fixed
		// by the statements (C09 speaks of let only)
		if _, ok := in.sc.lookup(t.Name); !ok {
			return ctlNone, nil, &unknownIdent{t.Name}
		}
		if _, local := in.sc.vars[t.Name]; !local {
			in.unspecified("bare assignment to an outer variable inside a scope")
		}
		in.sc.vars[t.Name] = v
		return ctlNone, nil, nil
	case ReturnS:
		if !inFn {
			in.unspecified("return outside a function body")
			return ctlNone, nil, nil
		}
		v, err := in.eval(t.X)
		if err != nil {
			return ctlNone, nil, err
		}
		return ctlReturn, v, nil
	case BreakS:
		if !inLoop {
			in.unspecified("break outside a loop")
		}
		return ctlBreak, nil, nil
	case ContinueS:
		if !inLoop {
			in.unspecified("continue outside a loop")
		}
		return ctlContinue, nil, nil
	case IfS:
		// a silent if contributes nothing; its block runs for effects and control flow
		var discard strings.Builder
		c, rv, err := in.runIf(t.If, &discard, inLoop, inFn)
		if discard.Len() > 0 && c != ctlNone && c != ctlReturn {
			in.unspecified("text inside a silent if that ends in break/continue")
		}
		return c, rv, err
	case ForS:
		var discard strings.Builder
		err := in.runFor(t.For, &discard, inFn)
		return ctlNone, nil, err
	}
	panic(fmt.Sprintf("model: unknown stmt %T", s))
}

func (in *Interp) cond(e Expr) (bool, error) {
	v, err := in.eval(e)
	if err != nil {
		if u, ok := err.(*unknownIdent); ok {
			in.forgave(e, u)
			return false, nil // the one tolerated fault: counts as nil
		}
		return false, err
	}
	return Truthy(v), nil
}

func (in *Interp) runIf(i *If, sb *strings.Builder, inLoop, inFn bool) (ctl, interface{}, error) {
	ok, err := in.cond(i.Cond)
	if err != nil {
		return ctlNone, nil, err
	}
	if ok {
		return in.nodes(i.Then, sb, inLoop, inFn)
	}
	for _, ei := range i.ElseIfs {
		ok, err := in.cond(ei.Cond)
		if err != nil {
			return ctlNone, nil, err
		}
		if ok {
			return in.nodes(ei.Then, sb, inLoop, inFn)
		}
	}
	if i.HasElse {
		return in.nodes(i.Else, sb, inLoop, inFn)
	}
	return ctlNone, nil, nil
}

// Iterator mirrors plush.Iterator for model values.
type Iterator interface{ Next() interface{} }

func (in *Interp) runFor(f *For, sb *strings.Builder, inFn bool) error {
	// the loop is a scope: loop variables and lets inside vanish afterwards
	outer := in.sc
	staleHit := false
	in.sc = &scope{vars: map[string]interface{}{}, outer: outer, stale: map[string]bool{}, hit: &staleHit}
	defer func() {
		in.sc = outer
		if staleHit {
			in.unspecified("a name let-bound in an earlier iteration of the same loop was read")
		}
	}()
	it, err := in.eval(f.Iter)
	if err != nil {
		return err
	}
	loopScope := in.sc
	iter := func(k, v interface{}) (bool, error) {
		for n := range loopScope.vars {
			loopScope.stale[n] = true // whatever earlier iterations bound
		}
		if f.Key != "" {
			in.sc.vars[f.Key] = k
			delete(loopScope.stale, f.Key)
		}
		in.sc.vars[f.Val] = v
		delete(loopScope.stale, f.Val)
		c, _, err := in.nodes(f.Body, sb, true, inFn)
		if err != nil {
			return false, err
		}
		if c == ctlReturn {
			in.unspecified("return inside a loop")
		}
		return c == ctlBreak, nil
	}
	switch t := it.(type) {
	case nil:
		return nil
	case []interface{}:
		for i, v := range t {
			stop, err := iter(i, v)
			if err != nil || stop {
				return err
			}
		}
		return nil
	case *OrderedMap:
		for _, k := range t.Keys {
			stop, err := iter(k, t.Vals[k])
			if err != nil || stop {
				return err
			}
		}
		return nil
	case Iterator:
		i := 0
		for v := t.Next(); v != nil; v = t.Next() {
			stop, err := iter(i, v)
			if err != nil || stop {
				return err
			}
			i++
		}
		return nil
	}
	return errf("could not iterate over %T", it)
}

// OrderedMap is a map value together with the visiting order the model should use.
type OrderedMap struct {
	Keys []interface{}
	Vals map[interface{}]interface{}
}

// FloatText is the printed form of a float: what an output tag prints for it. No statement fixes its spelling (Go's
// %v with an exponent for large and small magnitudes, plain decimals, ...); "string + x concatenates the printed form
// of x" only ties the two together. A check whose values include such floats sets FloatText to ask the engine.
var FloatText = func(f float64) string { return fmt.Sprint(f) }

// Truthy is the uniform truth table of C07.
func Truthy(v interface{}) bool {
	switch t := v.(type) {
	case nil:
		return false
	case bool:
		return t
	case string:
		return t != ""
	case HTML:
		return t != ""
	}
	return true
}

func (in *Interp) write(sb *strings.Builder, v interface{}) {
	switch t := v.(type) {
	case nil:
	case string:
		sb.WriteString(template.HTMLEscapeString(t))
	case HTML:
		sb.WriteString(string(t))
	case bool:
		sb.WriteString(fmt.Sprint(t))
	case int:
		sb.WriteString(fmt.Sprint(t))
	case float64:
		sb.WriteString(FloatText(t))
	case []interface{}:
		for _, e := range t {
			in.write(sb, e)
		}
	case *Closure:
		in.unspecified("emitting a function value")
	default:
		in.unspecified("emitting a %T", v)
	}
}

func (in *Interp) eval(e Expr) (interface{}, error) {
	in.steps++
	if in.steps > 200000 {
		in.unspecified("step budget")
		return nil, nil
	}
	switch t := e.(type) {
	case Lit:
		return t.V, nil
	case Paren:
		return in.eval(t.X)
	case Var:
		if v, ok := in.sc.lookup(t.Name); ok {
			return v, nil
		}
		if t.Name == "nil" {
			return nil, nil
		}
		return nil, &unknownIdent{t.Name}
	case Not:
		v, err := in.eval(t.X)
		if err != nil {
			u, ok := err.(*unknownIdent)
			if !ok {
				return nil, err
			}
			in.forgave(t.X, u)
			v = nil
		}
		return !Truthy(v), nil
	case Arr:
		out := make([]interface{}, 0, len(t.Els))
		for _, x := range t.Els {
			v, err := in.eval(x)
			if err != nil {
				return nil, err
			}
			out = append(out, v)
		}
		return out, nil
	case Idx:
		i, err := in.eval(t.I) // the statements do not fix the order of index vs operand
		if err != nil {
			return nil, err
		}
		x, err := in.eval(t.X)
		if err != nil {
			return nil, err
		}
		if om, ok := x.(*OrderedMap); ok {
			k, ok := i.(string)
			if !ok {
				in.unspecified("non-string key into a hash")
				return nil, nil
			}
			return om.Vals[k], nil // a missing key yields nil
		}
		arr, ok := x.([]interface{})
		if !ok {
			in.unspecified("index into %T", x)
			return nil, nil
		}
		n, ok := i.(int)
		if !ok {
			return nil, errf("non-int index")
		}
		if n < 0 {
			in.unspecified("negative index")
			return nil, nil
		}
		if n >= len(arr) {
			return nil, errf("index out of range")
		}
		return arr[n], nil
	case FnLit:
		return &Closure{Params: t.Params, Body: t.Body}, nil
	case Hash:
		om := &OrderedMap{Vals: map[interface{}]interface{}{}}
		for _, kv := range t.KVs {
			v, err := in.eval(kv.V)
			if err != nil {
				return nil, err
			}
			if _, dup := om.Vals[kv.K]; dup {
				in.unspecified("duplicate key in a hash literal")
			}
			om.Keys = append(om.Keys, kv.K)
			om.Vals[kv.K] = v
		}
		return om, nil
	case Call:
		return in.call(t)
	case Bin:
		return in.bin(t)
	}
	panic(fmt.Sprintf("model: unknown expr %T", e))
}

func (in *Interp) call(c Call) (interface{}, error) {
	if v, ok := in.sc.lookup(c.Fn); ok {
		if cl, ok := v.(*Closure); ok {
			if len(c.Args) != len(cl.Params) {
				in.unspecified("user function called with %d arguments for %d parameters", len(c.Args), len(cl.Params))
				return nil, nil
			}
			// arguments are evaluated in the caller's scope
			args := make([]interface{}, len(c.Args))
			for i, a := range c.Args {
				v, err := in.eval(a)
				if err != nil {
					return nil, err
				}
				args[i] = v
			}
			outer := in.sc
			in.sc = &scope{vars: map[string]interface{}{}, outer: outer}
			defer func() { in.sc = outer }()
			for i, p := range cl.Params {
				in.sc.vars[p] = args[i]
			}
			var sb strings.Builder
			ctlv, rv, err := in.nodes(cl.Body, &sb, false, true)
			if err != nil {
				return nil, err
			}
			if ctlv == ctlReturn {
				return rv, nil
			}
			if ctlv != ctlNone {
				in.unspecified("break/continue escaping a function body")
			}
			// no return reached: the call yields what the body rendered
			return HTML(sb.String()), nil
		}
		in.unspecified("calling a non-function model value %T", v)
		return nil, nil
	}
	h, ok := in.Helpers[c.Fn]
	if !ok {
		return nil, &unknownIdent{c.Fn}
	}
	args := make([]interface{}, len(c.Args))
	for i, a := range c.Args {
		v, err := in.eval(a)
		if err != nil {
			return nil, err
		}
		args[i] = v
	}
	if c.HasBlock {
		in.unspecified("model helper with block")
		return nil, nil
	}
	v, err := h(args)
	if err != nil {
		return nil, errf("helper %s: %v", c.Fn, err)
	}
	return v, nil
}

// forgave notes a forgiven unknown identifier that the tested expression is not itself.
func (in *Interp) forgave(e Expr, u *unknownIdent) {
	for {
		p, ok := e.(Paren)
		if !ok {
			break
		}
		e = p.X
	}
	if v, ok := e.(Var); ok && v.Name == u.name {
		return
	}
	if in.lenient == "" {
		in.lenient = "unknown identifier " + u.name + " raised inside a tested expression"
	}
}

func tolerant(op string) bool { return op == "==" || op == "!=" || op == "&&" || op == "||" }

func (in *Interp) operand(e Expr, op string) (interface{}, error) {
	v, err := in.eval(e)
	if err != nil {
		if u, ok := err.(*unknownIdent); ok && tolerant(op) {
			in.forgave(e, u)
			return nil, nil
		}
		return nil, err
	}
	return v, nil
}

var (
	minInt = big.NewInt(math.MinInt64)
	maxInt = big.NewInt(math.MaxInt64)
)

func (in *Interp) bin(b Bin) (interface{}, error) {
	l, err := in.operand(b.L, b.Op)
	if err != nil {
		return nil, err
	}
	switch b.Op {
	case "&&":
		if !Truthy(l) {
			return false, nil
		}
		r, err := in.operand(b.R, b.Op)
		if err != nil {
			return nil, err
		}
		return Truthy(r), nil
	case "||":
		if Truthy(l) {
			return true, nil
		}
		r, err := in.operand(b.R, b.Op)
		if err != nil {
			return nil, err
		}
		return Truthy(r), nil
	}
	r, err := in.operand(b.R, b.Op)
	if err != nil {
		return nil, err
	}
	return in.apply(b.Op, l, r)
}

// Apply computes l op r for the non-logical operators by the documented
// meaning; it is exported for the exhaustive operator tables of C06.
func Apply(op string, l, r interface{}) (v interface{}, err error, unspec string) {
	in := &Interp{}
	v, err = in.apply(op, l, r)
	return v, err, in.unspec
}

func (in *Interp) apply(op string, l, r interface{}) (interface{}, error) {
	if l == nil || r == nil {
		switch op {
		case "==":
			return l == nil && r == nil, nil
		case "!=":
			return !(l == nil && r == nil), nil
		}
		if _, ok := l.(string); ok && op == "+" {
			in.unspecified("string + nil")
			return nil, nil
		}
		return nil, errf("operator %s on nil", op)
	}
	switch lt := l.(type) {
	case int:
		rt, ok := r.(int)
		if !ok {
			return nil, errf("type mismatch %T %s %T", l, op, r)
		}
		bl, br := big.NewInt(int64(lt)), big.NewInt(int64(rt))
		var z *big.Int
		switch op {
		case "+":
			z = new(big.Int).Add(bl, br)
		case "-":
			z = new(big.Int).Sub(bl, br)
		case "*":
			z = new(big.Int).Mul(bl, br)
		case "/":
			if rt == 0 {
				return nil, errf("division by zero")
			}
			z = new(big.Int).Quo(bl, br) // truncated
		case "<":
			return lt < rt, nil
		case "<=":
			return lt <= rt, nil
		case ">":
			return lt > rt, nil
		case ">=":
			return lt >= rt, nil
		case "==":
			return lt == rt, nil
		case "!=":
			return lt != rt, nil
		default:
			in.unspecified("int %s int", op)
			return nil, nil
		}
		if z.Cmp(minInt) < 0 || z.Cmp(maxInt) > 0 {
			in.unspecified("integer overflow")
			return nil, nil
		}
		return int(z.Int64()), nil
	case float64:
		rt, ok := r.(float64)
		if !ok {
			return nil, errf("type mismatch %T %s %T", l, op, r)
		}
		var z float64
		switch op {
		case "+":
			z = lt + rt
		case "-":
			z = lt - rt
		case "*":
			z = lt * rt
		case "/":
			if rt == 0 {
				return nil, errf("division by zero")
			}
			z = lt / rt
		case "<":
			return lt < rt, nil
		case "<=":
			return lt <= rt, nil
		case ">":
			return lt > rt, nil
		case ">=":
			return lt >= rt, nil
		case "==":
			return lt == rt, nil
		case "!=":
			return lt != rt, nil
		default:
			in.unspecified("float %s float", op)
			return nil, nil
		}
		if math.IsNaN(z) || math.IsInf(z, 0) {
			in.unspecified("float overflow")
			return nil, nil
		}
		return z, nil
	case string:
		if op == "+" {
			switch r.(type) {
			case string, int, float64, bool:
				if f, ok := r.(float64); ok && !in.concatGo {
					return lt + FloatText(f), nil
				}
				return lt + fmt.Sprint(r), nil
			}
			in.unspecified("string + %T", r)
			return nil, nil
		}
		rt, ok := r.(string)
		if !ok {
			switch op {
			case "-", "*", "/":
				return nil, errf("type mismatch string %s %T", op, r)
			}
			in.unspecified("string %s %T", op, r)
			return nil, nil
		}
		switch op {
		case "<":
			return lt < rt, nil
		case "<=":
			return lt <= rt, nil
		case ">":
			return lt > rt, nil
		case ">=":
			return lt >= rt, nil
		case "==":
			return lt == rt, nil
		case "!=":
			return lt != rt, nil
		case "~=":
			re, err := regexp.Compile(rt)
			if err != nil {
				return nil, errf("bad pattern")
			}
			return re.MatchString(lt), nil
		}
		return nil, errf("type mismatch string %s string", op)
	case bool:
		rt, ok := r.(bool)
		if !ok {
			in.unspecified("bool %s %T", op, r)
			return nil, nil
		}
		switch op {
		case "==":
			return lt == rt, nil
		case "!=":
			return lt != rt, nil
		case "<", "<=", ">", ">=", "-", "*", "/":
			return nil, errf("type mismatch bool %s bool", op)
		}
		in.unspecified("bool %s bool", op)
		return nil, nil
	}
	in.unspecified("%T %s %T", l, op, r)
	return nil, nil
}
