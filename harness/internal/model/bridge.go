package model

import (
	"fmt"
	"html/template"

	plush "github.com/gobuffalo/plush/v5"
)

// ToPlush converts a model value into the Go value handed to plush.
func ToPlush(v interface{}) interface{} {
	switch t := v.(type) {
	case HTML:
		return template.HTML(t)
	case []interface{}:
		out := make([]interface{}, len(t))
		for i := range t {
			out[i] = ToPlush(t[i])
		}
		return out
	case *OrderedMap:
		allStr := true
		for _, k := range t.Keys {
			if _, ok := k.(string); !ok {
				allStr = false
			}
		}
		if allStr {
			m := map[string]interface{}{}
			for _, k := range t.Keys {
				m[k.(string)] = ToPlush(t.Vals[k])
			}
			return m
		}
		m := map[interface{}]interface{}{}
		for _, k := range t.Keys {
			m[k] = ToPlush(t.Vals[k])
		}
		return m
	}
	return v
}

// FromPlush converts a value produced by plush back into a model value.
func FromPlush(v interface{}) interface{} {
	switch t := v.(type) {
	case template.HTML:
		return HTML(t)
	case []interface{}:
		out := make([]interface{}, len(t))
		for i := range t {
			out[i] = FromPlush(t[i])
		}
		return out
	}
	return v
}

// Context builds a fresh plush context from model data and helpers. Fresh for
// every render: plush.NewContextWith aliases the map and top-level let writes into it.
func Context(data map[string]interface{}, helpers map[string]Helper) *plush.Context {
	m := map[string]interface{}{}
	for k, v := range data {
		m[k] = ToPlush(v)
	}
	for name, h := range helpers {
		h := h
		m[name] = func(args ...interface{}) (interface{}, error) {
			in := make([]interface{}, len(args))
			for i := range args {
				in[i] = FromPlush(args[i])
			}
			v, err := h(in)
			if err != nil {
				return nil, err
			}
			return ToPlush(v), nil
		}
	}
	return plush.NewContextWith(m)
}

// Describe is a short printable form of a model value (for messages and hashing).
func Describe(v interface{}) string { return fmt.Sprintf("%T(%v)", v, v) }
