package model

import (
	"encoding/json"
	"fmt"
	"reflect"
)

// JSON codec for the mini-AST so that generated programs can be stored in
// replay files. Every AST struct is written as an object with a "$" type tag;
// literal values keep their Go type ({"$":"int","v":3}).

var astTypes = map[string]reflect.Type{}

func init() {
	for _, v := range []interface{}{
		Lit{}, Var{}, Bin{}, Not{}, Call{}, Arr{}, Idx{}, Paren{}, FnLit{}, Hash{},
		Text{}, Emit{}, EmitIf{}, EmitFor{}, Code{}, Comment{},
		ExprS{}, LetS{}, AssignS{}, ReturnS{}, BreakS{}, ContinueS{}, IfS{}, ForS{},
		If{}, ElseIf{}, For{},
		KV{}, EmitPartial{}, ContentFor{}, EmitContentOf{}, EmitBlock{},
	} {
		t := reflect.TypeOf(v)
		astTypes[t.Name()] = t
	}
}

func enc(v reflect.Value) interface{} {
	if !v.IsValid() {
		return nil
	}
	switch v.Kind() {
	case reflect.Interface:
		if v.IsNil() {
			return nil
		}
		return enc(v.Elem())
	case reflect.Ptr:
		if v.IsNil() {
			return nil
		}
		return enc(v.Elem())
	case reflect.Slice:
		if v.IsNil() {
			return nil
		}
		out := make([]interface{}, v.Len())
		for i := range out {
			out[i] = enc(v.Index(i))
		}
		return out
	case reflect.Struct:
		m := map[string]interface{}{"$": v.Type().Name()}
		for i := 0; i < v.NumField(); i++ {
			f := v.Type().Field(i)
			if v.Type().Name() == "Lit" && f.Name == "V" {
				m["V"] = encLit(v.Field(i).Interface())
				continue
			}
			m[f.Name] = enc(v.Field(i))
		}
		return m
	case reflect.String:
		return v.String()
	case reflect.Bool:
		return v.Bool()
	case reflect.Int:
		return v.Int()
	}
	panic(fmt.Sprintf("model codec: cannot encode %s", v.Type()))
}

func encLit(x interface{}) interface{} {
	switch t := x.(type) {
	case nil:
		return map[string]interface{}{"$": "nil"}
	case int:
		return map[string]interface{}{"$": "int", "v": t}
	case float64:
		return map[string]interface{}{"$": "float", "v": t}
	case string:
		return map[string]interface{}{"$": "string", "v": t}
	case bool:
		return map[string]interface{}{"$": "bool", "v": t}
	}
	panic(fmt.Sprintf("model codec: cannot encode literal %T", x))
}

// Encode serialises a node list.
func Encode(ns []Node) json.RawMessage {
	b, err := json.Marshal(enc(reflect.ValueOf(ns)))
	if err != nil {
		panic(err)
	}
	return b
}

func decLit(m map[string]interface{}) (interface{}, error) {
	switch m["$"] {
	case "nil":
		return nil, nil
	case "int":
		f, ok := m["v"].(float64)
		if !ok {
			return nil, fmt.Errorf("bad int literal")
		}
		return int(f), nil
	case "float":
		f, ok := m["v"].(float64)
		if !ok {
			return nil, fmt.Errorf("bad float literal")
		}
		return f, nil
	case "string":
		s, ok := m["v"].(string)
		if !ok {
			return nil, fmt.Errorf("bad string literal")
		}
		return s, nil
	case "bool":
		b, ok := m["v"].(bool)
		if !ok {
			return nil, fmt.Errorf("bad bool literal")
		}
		return b, nil
	}
	return nil, fmt.Errorf("bad literal tag %v", m["$"])
}

func dec(x interface{}, want reflect.Type) (reflect.Value, error) {
	switch want.Kind() {
	case reflect.Interface:
		if x == nil {
			return reflect.Zero(want), nil
		}
		m, ok := x.(map[string]interface{})
		if !ok {
			return reflect.Value{}, fmt.Errorf("expected tagged object, got %T", x)
		}
		name, _ := m["$"].(string)
		t, ok := astTypes[name]
		if !ok {
			return reflect.Value{}, fmt.Errorf("unknown AST type %q", name)
		}
		v, err := dec(x, t)
		if err != nil {
			return reflect.Value{}, err
		}
		out := reflect.New(want).Elem()
		out.Set(v)
		return out, nil
	case reflect.Ptr:
		if x == nil {
			return reflect.Zero(want), nil
		}
		v, err := dec(x, want.Elem())
		if err != nil {
			return reflect.Value{}, err
		}
		p := reflect.New(want.Elem())
		p.Elem().Set(v)
		return p, nil
	case reflect.Slice:
		if x == nil {
			return reflect.Zero(want), nil
		}
		arr, ok := x.([]interface{})
		if !ok {
			return reflect.Value{}, fmt.Errorf("expected array, got %T", x)
		}
		out := reflect.MakeSlice(want, len(arr), len(arr))
		for i := range arr {
			v, err := dec(arr[i], want.Elem())
			if err != nil {
				return reflect.Value{}, err
			}
			out.Index(i).Set(v)
		}
		return out, nil
	case reflect.Struct:
		m, ok := x.(map[string]interface{})
		if !ok {
			return reflect.Value{}, fmt.Errorf("expected object for %s, got %T", want.Name(), x)
		}
		out := reflect.New(want).Elem()
		for i := 0; i < want.NumField(); i++ {
			f := want.Field(i)
			if want.Name() == "Lit" && f.Name == "V" {
				lm, ok := m["V"].(map[string]interface{})
				if !ok {
					return reflect.Value{}, fmt.Errorf("bad literal")
				}
				lv, err := decLit(lm)
				if err != nil {
					return reflect.Value{}, err
				}
				if lv != nil {
					out.Field(i).Set(reflect.ValueOf(lv))
				}
				continue
			}
			v, err := dec(m[f.Name], f.Type)
			if err != nil {
				return reflect.Value{}, fmt.Errorf("%s.%s: %v", want.Name(), f.Name, err)
			}
			out.Field(i).Set(v)
		}
		return out, nil
	case reflect.String:
		s, _ := x.(string)
		return reflect.ValueOf(s).Convert(want), nil
	case reflect.Bool:
		b, _ := x.(bool)
		return reflect.ValueOf(b), nil
	case reflect.Int:
		f, _ := x.(float64)
		return reflect.ValueOf(int(f)), nil
	}
	return reflect.Value{}, fmt.Errorf("cannot decode into %s", want)
}

// Decode parses what Encode wrote.
func Decode(raw json.RawMessage) ([]Node, error) {
	var x interface{}
	if err := json.Unmarshal(raw, &x); err != nil {
		return nil, err
	}
	v, err := dec(x, reflect.TypeOf([]Node(nil)))
	if err != nil {
		return nil, err
	}
	ns, _ := v.Interface().([]Node)
	return ns, nil
}
