package model

import (
	"fmt"
	"strconv"
	"strings"
)

// Printer turns the mini-AST into plush source. The precedence order used to
// place parentheses is the one the property statement gives:
// ! > * / > + - > < <= > >= > == != ~= > && ||, binary operators left-associative.
type Printer struct {
	FullParens bool // parenthesise every binary and prefix expression
	// Compact prints nested blocks of silent statements inside one tag where
	// possible (`<% if (c) { break } %>`), otherwise every node is its own tag.
	Compact bool
}

func level(op string) int {
	switch op {
	case "||", "&&":
		return 1
	case "==", "!=", "~=":
		return 2
	case "<", "<=", ">", ">=":
		return 3
	case "+", "-":
		return 4
	case "*", "/":
		return 5
	}
	panic("model: unknown operator " + op)
}

const (
	lvlNot  = 6
	lvlAtom = 7
)

// QuoteString spells s as a plush string literal, or ok=false if it cannot be spelled.
func QuoteString(s string) (lit string, ok bool) {
	if !strings.HasSuffix(s, "\\") && !strings.Contains(s, "\\\"") && !strings.ContainsRune(s, 0) {
		return "\"" + strings.ReplaceAll(s, "\"", "\\\"") + "\"", true
	}
	if !strings.Contains(s, "`") && !strings.ContainsRune(s, 0) {
		return "`" + s + "`", true
	}
	return "", false
}

func (p Printer) lit(v interface{}) string {
	switch t := v.(type) {
	case nil:
		return "nil"
	case bool:
		return fmt.Sprint(t)
	case int:
		if t < 0 {
			panic("model: negative integer literal cannot be printed")
		}
		return strconv.Itoa(t)
	case float64:
		if t < 0 {
			panic("model: negative float literal cannot be printed")
		}
		s := strconv.FormatFloat(t, 'f', -1, 64)
		if !strings.Contains(s, ".") {
			s += ".0"
		}
		return s
	case string:
		q, ok := QuoteString(t)
		if !ok {
			panic("model: string literal cannot be spelled: " + strconv.Quote(t))
		}
		return q
	}
	panic(fmt.Sprintf("model: cannot print literal %T", v))
}

// Expr prints e so that it can stand where an operand of level min is expected.
func (p Printer) Expr(e Expr) string { return p.expr(e, 0) }

func (p Printer) expr(e Expr, min int) string {
	switch t := e.(type) {
	case Lit:
		return p.lit(t.V)
	case Var:
		return t.Name
	case Paren:
		return "(" + p.expr(t.X, 0) + ")"
	case Not:
		s := "!" + p.expr(t.X, lvlNot)
		if p.FullParens || min > lvlNot {
			return "(" + s + ")"
		}
		return s
	case Bin:
		l := level(t.Op)
		s := p.expr(t.L, l) + " " + t.Op + " " + p.expr(t.R, l+1)
		if p.FullParens || l < min {
			return "(" + s + ")"
		}
		return s
	case Arr:
		parts := make([]string, len(t.Els))
		for i, x := range t.Els {
			parts[i] = p.expr(x, 0)
		}
		return "[" + strings.Join(parts, ", ") + "]"
	case Hash:
		return p.hash(t.KVs)
	case Idx:
		return p.expr(t.X, lvlAtom) + "[" + p.expr(t.I, 0) + "]"
	case Call:
		parts := make([]string, len(t.Args))
		for i, x := range t.Args {
			parts[i] = p.expr(x, 0)
		}
		s := t.Fn + "(" + strings.Join(parts, ", ") + ")"
		if t.HasBlock {
			s += " { %>" + p.Nodes(t.Block) + "<% }"
		}
		return s
	case FnLit:
		if p.Compact && allCode(t.Body) {
			return "fn(" + strings.Join(t.Params, ", ") + ") " + p.inline(t.Body)
		}
		return "fn(" + strings.Join(t.Params, ", ") + ") { %>" + p.Nodes(t.Body) + "<% }"
	}
	panic(fmt.Sprintf("model: cannot print expr %T", e))
}

// allCode reports whether a block consists of silent statements only, so that
// it can be printed inside one tag.
func allCode(ns []Node) bool {
	for _, n := range ns {
		c, ok := n.(Code)
		if !ok {
			return false
		}
		switch t := c.S.(type) {
		case ExprS:
			// an expression statement that begins with ( [ or { would continue the
			// statement before it when both stand in one tag: keep such blocks tag-per-statement
			if s := (Printer{}).expr(t.X, 0); s != "" && strings.ContainsAny(s[:1], "([{") {
				return false
			}
		case IfS:
			if !ifAllCode(t.If) {
				return false
			}
		case ForS:
			if !allCode(t.For.Body) {
				return false
			}
		case LetS:
			if f, ok := t.X.(FnLit); ok && !allCode(f.Body) {
				return false
			}
		}
	}
	return true
}

func ifAllCode(i *If) bool {
	if !allCode(i.Then) || (i.HasElse && !allCode(i.Else)) {
		return false
	}
	for _, ei := range i.ElseIfs {
		if !allCode(ei.Then) {
			return false
		}
	}
	return true
}

// inline prints an all-code block between braces inside the current tag.
func (p Printer) inline(ns []Node) string {
	var parts []string
	for _, n := range ns {
		parts = append(parts, p.Stmt(n.(Code).S))
	}
	if len(parts) == 0 {
		return "{ }"
	}
	return "{\n" + strings.Join(parts, "\n") + "\n}"
}

func (p Printer) hash(kvs []KV) string {
	parts := make([]string, len(kvs))
	for i, kv := range kvs {
		parts[i] = kv.K + ": " + p.expr(kv.V, 0)
	}
	return "{" + strings.Join(parts, ", ") + "}"
}

func (p Printer) ifHead(i *If) string {
	if p.Compact && ifAllCode(i) {
		s := "if (" + p.expr(i.Cond, 0) + ") " + p.inline(i.Then)
		for _, ei := range i.ElseIfs {
			s += " else if (" + p.expr(ei.Cond, 0) + ") " + p.inline(ei.Then)
		}
		if i.HasElse {
			s += " else " + p.inline(i.Else)
		}
		return s
	}
	var sb strings.Builder
	sb.WriteString("if (" + p.expr(i.Cond, 0) + ") { %>")
	sb.WriteString(p.Nodes(i.Then))
	for _, ei := range i.ElseIfs {
		sb.WriteString("<% } else if (" + p.expr(ei.Cond, 0) + ") { %>")
		sb.WriteString(p.Nodes(ei.Then))
	}
	if i.HasElse {
		sb.WriteString("<% } else { %>")
		sb.WriteString(p.Nodes(i.Else))
	}
	sb.WriteString("<% }")
	return sb.String()
}

func (p Printer) forHead(f *For) string {
	vars := f.Val
	if f.Key != "" {
		vars = f.Key + ", " + f.Val
	}
	return "for (" + vars + ") in " + p.expr(f.Iter, 0) + " { %>" + p.Nodes(f.Body) + "<% }"
}

// Stmt prints a statement without tag delimiters.
func (p Printer) Stmt(s Stmt) string {
	switch t := s.(type) {
	case ExprS:
		return p.expr(t.X, 0)
	case LetS:
		return "let " + t.Name + " = " + p.expr(t.X, 0)
	case AssignS:
		return t.Name + " = " + p.expr(t.X, 0)
	case ReturnS:
		return "return " + p.expr(t.X, 0)
	case BreakS:
		return "break"
	case ContinueS:
		return "continue"
	case IfS:
		return p.ifHead(t.If)
	case ForS:
		return p.forHead(t.For)
	}
	panic(fmt.Sprintf("model: cannot print stmt %T", s))
}

// Nodes prints a node list as template source (canonical layout: one node per tag).
func (p Printer) Nodes(ns []Node) string {
	var sb strings.Builder
	for _, n := range ns {
		switch t := n.(type) {
		case Text:
			sb.WriteString(t.S)
		case Comment:
			sb.WriteString("<%#" + t.S + "%>")
		case Emit:
			sb.WriteString("<%= " + p.expr(t.X, 0) + " %>")
		case EmitIf:
			sb.WriteString("<%= " + p.ifHead(t.If) + " %>")
		case EmitFor:
			sb.WriteString("<%= " + p.forHead(t.For) + " %>")
		case Code:
			sb.WriteString("<% " + p.Stmt(t.S) + " %>")
		case EmitPartial:
			if t.Var != "" {
				sb.WriteString("<%= partial(" + p.lit(t.Name) + ", " + t.Var + ") %>")
			} else {
				sb.WriteString("<%= partial(" + p.lit(t.Name) + ", " + p.hash(t.Data) + ") %>")
			}
		case ContentFor:
			sb.WriteString("<% contentFor(" + p.lit(t.Name) + ") { %>" + p.Nodes(t.Body) + "<% } %>")
		case EmitContentOf:
			if t.Var != "" {
				sb.WriteString("<%= contentOf(" + p.lit(t.Name) + ", " + t.Var + ") %>")
			} else {
				sb.WriteString("<%= contentOf(" + p.lit(t.Name) + ", " + p.hash(t.Data) + ") %>")
			}
		case EmitBlock:
			arg := ""
			if t.Data != nil {
				arg = p.hash(t.Data)
			}
			sb.WriteString("<%= " + t.Helper + "(" + arg + ") { %>" + p.Nodes(t.Body) + "<% } %>")
		default:
			panic(fmt.Sprintf("model: cannot print node %T", n))
		}
	}
	return sb.String()
}
