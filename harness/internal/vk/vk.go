// Package vk is the shared verification kit: evidence recording, replay files,
// known-finding handling, seed/tier/shard plumbing, the rapid wrapper and the
// safe runner (panic capture, token-budget detection, hang watchdog).
//
// Every property package has one TestProp (explore), one TestReplay (re-run a
// saved case through the same oracle, bypassing the generators) and a TestMain
// that delegates to Main (so that the shard-merge mode is available).
package vk

import (
	"crypto/sha256"
	"encoding/base64"
	"encoding/binary"
	"encoding/hex"
	"encoding/json"
	"flag"
	"fmt"
	"hash/fnv"
	"os"
	"path/filepath"
	"sort"
	"strconv"
	"strings"
	"sync"
	"sync/atomic"
	"testing"
	"time"
	"unicode/utf8"

	"pgregory.net/rapid"
)

// Text is a string that survives JSON even when it is not valid UTF-8.
type Text string

func (t Text) MarshalJSON() ([]byte, error) {
	s := string(t)
	if utf8.ValidString(s) && !strings.ContainsRune(s, 0xFFFD) {
		return json.Marshal(s)
	}
	return json.Marshal(map[string]string{"b64": base64.StdEncoding.EncodeToString([]byte(s))})
}

func (t *Text) UnmarshalJSON(b []byte) error {
	var s string
	if err := json.Unmarshal(b, &s); err == nil {
		*t = Text(s)
		return nil
	}
	var m map[string]string
	if err := json.Unmarshal(b, &m); err != nil {
		return err
	}
	d, err := base64.StdEncoding.DecodeString(m["b64"])
	if err != nil {
		return err
	}
	*t = Text(d)
	return nil
}

// Fail describes one violated case. Kind selects the replayer, Case must be
// JSON-serialisable and self-contained, Class (optional) names the generator
// class for known-finding matching.
type Fail struct {
	Kind  string
	Class string
	Case  interface{}
	Msg   string
}

func Failf(kind string, c interface{}, format string, a ...interface{}) *Fail {
	return &Fail{Kind: kind, Case: c, Msg: fmt.Sprintf(format, a...)}
}

type Finding struct {
	ID       string          `json:"id"`
	Status   string          `json:"status"` // open | fixed
	Property string          `json:"property"`
	Class    string          `json:"class,omitempty"`
	Classes  []string        `json:"classes,omitempty"`
	What     string          `json:"what"`
	Commit   string          `json:"commit,omitempty"`
	Line     string          `json:"line,omitempty"`
	Kind     string          `json:"kind,omitempty"`
	Witness  json.RawMessage `json:"witness,omitempty"`
}

type knownFile struct {
	Findings []Finding `json:"findings"`
}

type Subspace struct {
	Name       string `json:"name"`
	Size       int64  `json:"size"`
	Exhaustive bool   `json:"exhaustive"`
}

type Run struct {
	T      *testing.T
	ID     string
	Tier   string
	Seed   uint64
	Shard  int
	Shards int

	rule        string
	assumptions []string
	start       time.Time

	evals int64

	mu         sync.Mutex
	nt         map[uint64]struct{}
	classes    map[string]int64
	excluded   map[string]int64
	subspaces  []Subspace
	samples    []interface{}
	nsampled   int64
	violations int
	knownSeen  map[string]int
	replayed   int
	extra      map[string]interface{}
	open       map[string]string // class -> finding id (open findings of this property)
	findings   []Finding
	replayers  map[string]func(json.RawMessage) *Fail
	replayDir  string
	evPath     string
	finished   bool

	wmu     sync.Mutex
	watched map[*watchEntry]struct{}
}

// Main is called from every package's TestMain.
func Main(m *testing.M) {
	flag.Parse()
	if d := os.Getenv("VERIF_MERGE"); d != "" {
		if err := merge(d, os.Getenv("VERIF_EVIDENCE")); err != nil {
			fmt.Println("MERGE-ERROR:", err)
			os.Exit(2)
		}
		os.Exit(0)
	}
	os.Exit(m.Run())
}

func envInt(k string, def int) int {
	if v := os.Getenv(k); v != "" {
		if n, err := strconv.Atoi(v); err == nil {
			return n
		}
	}
	return def
}

// Start begins a run of property id. rule is the generation / non-triviality
// rule that goes into the evidence file.
func Start(t *testing.T, id, rule string, assumptions ...string) *Run {
	r := &Run{
		T: t, ID: id, rule: rule, assumptions: assumptions, start: time.Now(),
		nt: map[uint64]struct{}{}, classes: map[string]int64{}, excluded: map[string]int64{},
		knownSeen: map[string]int{}, extra: map[string]interface{}{}, open: map[string]string{},
		replayers: map[string]func(json.RawMessage) *Fail{}, watched: map[*watchEntry]struct{}{},
	}
	r.Tier = os.Getenv("VERIF_TIER")
	if r.Tier != "thorough" {
		r.Tier = "quick"
	}
	seed := uint64(1)
	if v := os.Getenv("VERIF_SEED"); v != "" {
		if n, err := strconv.ParseInt(v, 10, 64); err == nil {
			seed = uint64(n)
		}
	}
	if seed == 0 {
		seed = 1 // rapid treats 0 as "random"
	}
	r.Seed = seed
	r.Shard = envInt("VERIF_SHARD", 0)
	r.Shards = envInt("VERIF_SHARDS", 1)
	r.replayDir = os.Getenv("VERIF_REPLAY_DIR")
	if r.replayDir == "" {
		r.replayDir = "/verif/replays/" + id
	}
	r.evPath = os.Getenv("VERIF_EVIDENCE")
	if r.evPath == "" {
		r.evPath = "/verif/evidence/" + id + ".json"
	}
	kp := os.Getenv("VERIF_KNOWN")
	if kp == "" {
		kp = "/verif/known_findings.json"
	}
	if b, err := os.ReadFile(kp); err == nil {
		var kf knownFile
		if err := json.Unmarshal(b, &kf); err != nil {
			t.Fatalf("known findings file %s: %v", kp, err)
		}
		for _, f := range kf.Findings {
			if f.Property != id {
				continue
			}
			r.findings = append(r.findings, f)
			if f.Status == "open" {
				if f.Class != "" {
					r.open[f.Class] = f.ID
				}
				for _, c := range f.Classes {
					r.open[c] = f.ID
				}
			}
		}
	}
	// per-shard rapid seed, so shards explore different cases
	rs := seed
	if r.Shards > 1 {
		rs = seed*1000 + uint64(r.Shard) + 1
	}
	flag.Set("rapid.seed", strconv.FormatUint(rs, 10))
	flag.Set("rapid.nofailfile", "true")
	go r.watchdog()
	return r
}

func (r *Run) Quick() bool    { return r.Tier == "quick" }
func (r *Run) Thorough() bool { return r.Tier == "thorough" }

// Pick returns q in the quick tier and th in the thorough tier.
func (r *Run) Pick(q, th int) int {
	if r.Quick() {
		return q
	}
	return th
}

// Mine tells an exhaustive loop whether cell i belongs to this shard.
func (r *Run) Mine(i int64) bool {
	return r.Shards <= 1 || int(i%int64(r.Shards)) == r.Shard
}

// Replayer registers the function that re-runs a saved case of the given kind.
func (r *Run) Replayer(kind string, fn func(json.RawMessage) *Fail) {
	r.replayers[kind] = fn
}

// OpenClass reports whether an open known finding of this property lists the
// generator class, i.e. whether the generator must steer away from it.
func (r *Run) OpenClass(class string) bool {
	_, ok := r.open[class]
	return ok
}

// Exclude counts one generated case steered away from an open finding.
func (r *Run) Exclude(class string) {
	r.mu.Lock()
	r.excluded[class]++
	r.mu.Unlock()
}

func hash64(s string) uint64 {
	h := fnv.New64a()
	h.Write([]byte(s))
	return h.Sum64()
}

// Count records one oracle evaluation. ntKey is the canonical form of the case
// if it is non-trivial by the property's rule ("" otherwise); class feeds the
// class histogram ("" for none).
func (r *Run) Count(ntKey, class string) {
	atomic.AddInt64(&r.evals, 1)
	if ntKey == "" && class == "" {
		return
	}
	r.mu.Lock()
	if ntKey != "" {
		r.nt[hash64(ntKey)] = struct{}{}
	}
	if class != "" {
		r.classes[class]++
	}
	r.mu.Unlock()
}

func (r *Run) Evals(n int64) { atomic.AddInt64(&r.evals, n) }

func (r *Run) Class(class string) {
	r.mu.Lock()
	r.classes[class]++
	r.mu.Unlock()
}

// Sample offers a case for the evidence samples: the first three are kept, then
// those at offers 10, 100, 1000, ... (deterministic, no RNG).
func (r *Run) Sample(f func() interface{}) {
	n := atomic.AddInt64(&r.nsampled, 1)
	keep := n <= 3
	if !keep {
		p := int64(10)
		for p < n {
			p *= 10
		}
		keep = p == n
	}
	if !keep {
		return
	}
	v := f()
	r.mu.Lock()
	if len(r.samples) < 24 {
		r.samples = append(r.samples, v)
	}
	r.mu.Unlock()
}

func (r *Run) Subspace(name string, size int64, exhaustive bool) {
	r.mu.Lock()
	r.subspaces = append(r.subspaces, Subspace{name, size, exhaustive})
	r.mu.Unlock()
}

func (r *Run) Extra(k string, v interface{}) {
	r.mu.Lock()
	r.extra[k] = v
	r.mu.Unlock()
}

type replayFile struct {
	Property string          `json:"property"`
	Kind     string          `json:"kind"`
	Class    string          `json:"class,omitempty"`
	Msg      string          `json:"msg,omitempty"`
	Case     json.RawMessage `json:"case"`
}

// Current notes the case that is about to run in the file named by
// $VERIF_CURRENT (set by the driver for race-detector builds). When the
// process is killed by the race detector (halt_on_error) the driver turns that
// file into the replay file: the last noted case is the one that raced.
func (r *Run) Current(kind string, c interface{}) {
	p := os.Getenv("VERIF_CURRENT")
	if p == "" {
		return
	}
	cb, err := json.Marshal(c)
	if err != nil {
		return
	}
	b, _ := json.Marshal(replayFile{Property: r.ID, Kind: kind, Msg: "data race reported by the Go race detector while this case was running", Case: cb})
	os.WriteFile(p, b, 0o644)
}

// Check records a failure if f is non-nil and reports whether the case passed.
func (r *Run) Check(f *Fail) bool {
	if f == nil {
		return true
	}
	r.Violation(f)
	return false
}

// Violation writes the replay file and prints the VIOLATION line. A failure
// whose class is listed by an open known finding is counted there instead.
func (r *Run) Violation(f *Fail) {
	if f.Class != "" {
		if id, ok := r.open[f.Class]; ok {
			r.mu.Lock()
			r.knownSeen[id]++
			r.mu.Unlock()
			return
		}
	}
	r.mu.Lock()
	r.violations++
	n := r.violations
	r.mu.Unlock()
	if n > 8 {
		return // enough replay files; the count is still reported
	}
	path := r.writeReplay(f)
	fmt.Printf("VIOLATION property=%s replay=%s\n", r.ID, path)
	fmt.Printf("  detail: kind=%s class=%s %s\n", f.Kind, f.Class, oneLine(f.Msg, 600))
	r.T.Fail()
}

func oneLine(s string, max int) string {
	s = strings.ReplaceAll(s, "\n", "\\n")
	if len(s) > max {
		s = s[:max] + "…"
	}
	return s
}

func (r *Run) writeReplay(f *Fail) string {
	cb, err := json.Marshal(f.Case)
	if err != nil {
		cb, _ = json.Marshal(fmt.Sprintf("unserialisable case: %v", err))
	}
	rf := replayFile{Property: r.ID, Kind: f.Kind, Class: f.Class, Msg: f.Msg, Case: cb}
	b, _ := json.MarshalIndent(rf, "", " ")
	sum := sha256.Sum256(append([]byte(f.Kind+"\x00"), cb...))
	dir := r.replayDir
	if d := os.Getenv("VERIF_FAIL_DIR"); d != "" {
		dir = d // where new failures are written (committed cases are still read from replayDir)
	}
	os.MkdirAll(dir, 0o755)
	path := filepath.Join(dir, "fail-"+hex.EncodeToString(sum[:6])+".json")
	if err := os.WriteFile(path, b, 0o644); err != nil {
		fmt.Printf("  (could not write replay file: %v)\n", err)
	}
	return path
}

// replayOne re-runs one saved file through its replayer.
func (r *Run) replayOne(path string) (*Fail, error) {
	b, err := os.ReadFile(path)
	if err != nil {
		return nil, err
	}
	var rf replayFile
	if err := json.Unmarshal(b, &rf); err != nil {
		return nil, err
	}
	fn, ok := r.replayers[rf.Kind]
	if !ok {
		return nil, fmt.Errorf("no replayer for kind %q", rf.Kind)
	}
	f := fn(rf.Case)
	if f != nil && f.Kind == "decode" {
		return nil, fmt.Errorf("%s", f.Msg)
	}
	return f, nil
}

// ReplayCommitted re-runs every saved case under replays/<ID>/ and every
// known-finding witness. Open findings that still fail print KNOWN-FINDING;
// everything else that fails is a VIOLATION.
func (r *Run) ReplayCommitted() {
	for _, f := range r.findings {
		if len(f.Witness) == 0 {
			continue
		}
		fn, ok := r.replayers[f.Kind]
		if !ok {
			fmt.Printf("NOTE: finding %s has unknown witness kind %q\n", f.ID, f.Kind)
			continue
		}
		res := fn(f.Witness)
		if res != nil && res.Kind == "decode" {
			fmt.Printf("NOTE: finding %s witness undecodable: %s\n", f.ID, res.Msg)
			continue
		}
		r.mu.Lock()
		r.replayed++
		r.mu.Unlock()
		atomic.AddInt64(&r.evals, 1)
		switch {
		case f.Status == "open" && res != nil:
			fmt.Printf("KNOWN-FINDING: property=%s %s %s\n", r.ID, f.ID, f.What)
		case f.Status == "open" && res == nil:
			fmt.Printf("NOTE: open finding %s no longer reproduces on this tree\n", f.ID)
		case res != nil: // fixed finding came back
			res.Msg = "regression of fixed finding " + f.ID + ": " + res.Msg
			res.Class = ""
			r.Violation(res)
		}
	}
	files, _ := filepath.Glob(filepath.Join(r.replayDir, "*.json"))
	sort.Strings(files)
	for _, p := range files {
		if b := filepath.Base(p); strings.HasPrefix(b, "fail-") || strings.HasPrefix(b, "hang-candidate-") {
			continue // left behind by an earlier failing run; only committed regression cases are re-run
		}
		res, err := r.replayOne(p)
		if err != nil {
			fmt.Printf("NOTE: skipping replay file %s: %v\n", p, err)
			continue
		}
		r.mu.Lock()
		r.replayed++
		r.mu.Unlock()
		atomic.AddInt64(&r.evals, 1)
		if res != nil {
			if res.Class != "" && r.OpenClass(res.Class) {
				continue
			}
			r.mu.Lock()
			r.violations++
			r.mu.Unlock()
			fmt.Printf("VIOLATION property=%s replay=%s\n", r.ID, p)
			fmt.Printf("  detail: saved case still fails: %s\n", oneLine(res.Msg, 600))
			r.T.Fail()
		}
	}
}

// ReplayEnv implements TestReplay: re-run $VERIF_REPLAY_FILE.
func (r *Run) ReplayEnv() {
	p := os.Getenv("VERIF_REPLAY_FILE")
	if p == "" {
		r.T.Skip("VERIF_REPLAY_FILE not set")
	}
	r.finished = true // no evidence from replay mode
	res, err := r.replayOne(p)
	if err != nil {
		fmt.Printf("REPLAY-ERROR: %v\n", err)
		os.Exit(2)
	}
	if res != nil {
		fmt.Printf("VIOLATION property=%s replay=%s\n", r.ID, p)
		fmt.Printf("  detail: %s\n", oneLine(res.Msg, 2000))
		r.T.Fail()
		return
	}
	fmt.Printf("REPLAY-OK property=%s file=%s\n", r.ID, p)
}

// ---- rapid wrapper -------------------------------------------------------

type capTB struct {
	name   string
	failed bool
	msgs   []string
}

type stopCap struct{}

func (c *capTB) Helper()                          {}
func (c *capTB) Name() string                     { return c.name }
func (c *capTB) Logf(f string, a ...interface{})  {}
func (c *capTB) Log(a ...interface{})             {}
func (c *capTB) Skipf(f string, a ...interface{}) { panic(stopCap{}) }
func (c *capTB) Skip(a ...interface{})            { panic(stopCap{}) }
func (c *capTB) SkipNow()                         { panic(stopCap{}) }
func (c *capTB) Errorf(f string, a ...interface{}) {
	c.failed = true
	c.msgs = append(c.msgs, fmt.Sprintf(f, a...))
}
func (c *capTB) Error(a ...interface{})            { c.failed = true; c.msgs = append(c.msgs, fmt.Sprint(a...)) }
func (c *capTB) Fatalf(f string, a ...interface{}) { c.Errorf(f, a...); panic(stopCap{}) }
func (c *capTB) Fatal(a ...interface{})            { c.Error(a...); panic(stopCap{}) }
func (c *capTB) FailNow()                          { c.failed = true; panic(stopCap{}) }
func (c *capTB) Fail()                             { c.failed = true }
func (c *capTB) Failed() bool                      { return c.failed }

// Rapid runs prop on `checks` generated cases. prop returns nil when the case
// holds. On failure rapid shrinks; the last failing execution is the minimal
// case and becomes the replay file.
func (r *Run) Rapid(name string, checks int, prop func(t *rapid.T) *Fail) {
	if checks <= 0 {
		return
	}
	flag.Set("rapid.checks", strconv.Itoa(checks))
	var last *Fail
	tb := &capTB{name: r.ID + "_" + name}
	func() {
		defer func() {
			if p := recover(); p != nil {
				if _, ok := p.(stopCap); !ok {
					panic(p)
				}
			}
		}()
		rapid.Check(tb, func(t *rapid.T) {
			if f := prop(t); f != nil {
				last = f
				t.Fatalf("%s", f.Msg)
			}
		})
	}()
	if !tb.failed {
		return
	}
	all := strings.Join(tb.msgs, "\n")
	if last != nil && !strings.Contains(all, "[rapid] panic") {
		if strings.Contains(all, "flaky test") {
			last.Msg = "(rapid could not reproduce deterministically) " + last.Msg
		}
		r.Violation(last)
		return
	}
	// a panic inside the property function itself is a harness defect, or
	// rapid could not generate: inconclusive, never a violation
	fmt.Printf("HARNESS-ERROR property=%s phase=%s: %s\n", r.ID, name, oneLine(all, 4000))
	r.Finish()
	os.Exit(2)
}

// ---- evidence ------------------------------------------------------------

type evidence struct {
	PropertyID  string                 `json:"property_id"`
	Tier        string                 `json:"tier"`
	Seed        int64                  `json:"seed"`
	Level       string                 `json:"level"`
	Coverage    map[string]interface{} `json:"coverage"`
	Assumptions []string               `json:"assumptions"`
	WallS       float64                `json:"wall_s"`
	Violations  int                    `json:"violations"`
}

// Finish writes the evidence file (idempotent; also registered as Cleanup).
func (r *Run) Finish() {
	r.mu.Lock()
	if r.finished {
		r.mu.Unlock()
		return
	}
	r.finished = true
	cov := map[string]interface{}{
		"evaluations":         atomic.LoadInt64(&r.evals),
		"distinct_nontrivial": len(r.nt),
		"rule":                r.rule,
		"samples":             r.samples,
		"classes":             r.classes,
		"excluded":            r.excluded,
		"subspaces":           r.subspaces,
		"replayed":            r.replayed,
		"known_findings_hit":  r.knownSeen,
		"exhaustive":          false,
	}
	for k, v := range r.extra {
		cov[k] = v
	}
	if len(r.samples) == 0 {
		cov["samples"] = []interface{}{}
	}
	ev := evidence{PropertyID: r.ID, Tier: r.Tier, Seed: int64(r.Seed), Level: "exploration",
		Coverage: cov, Assumptions: r.assumptions, WallS: time.Since(r.start).Seconds(), Violations: r.violations}
	hashes := make([]uint64, 0, len(r.nt))
	for h := range r.nt {
		hashes = append(hashes, h)
	}
	r.mu.Unlock()
	b, err := json.MarshalIndent(ev, "", " ")
	if err != nil {
		fmt.Printf("EVIDENCE-ERROR: %v\n", err)
		return
	}
	os.MkdirAll(filepath.Dir(r.evPath), 0o755)
	if err := os.WriteFile(r.evPath, b, 0o644); err != nil {
		fmt.Printf("EVIDENCE-ERROR: %v\n", err)
	}
	if r.Shards > 1 {
		hb := make([]byte, 8*len(hashes))
		for i, h := range hashes {
			binary.LittleEndian.PutUint64(hb[8*i:], h)
		}
		os.WriteFile(r.evPath+".hashes", hb, 0o644)
	}
	fmt.Printf("SUMMARY property=%s tier=%s seed=%d shard=%d/%d evaluations=%d distinct_nontrivial=%d violations=%d wall=%.1fs\n",
		r.ID, r.Tier, r.Seed, r.Shard, r.Shards, ev.Coverage["evaluations"], len(hashes), r.violations, ev.WallS)
}

// merge combines shard evidence files <dir>/shard-*.json (+ .hashes) into out.
func merge(dir, out string) error {
	files, _ := filepath.Glob(filepath.Join(dir, "shard-*.json"))
	sort.Strings(files)
	if len(files) == 0 {
		return fmt.Errorf("no shard evidence in %s", dir)
	}
	var total evidence
	set := map[uint64]struct{}{}
	classes := map[string]float64{}
	excluded := map[string]float64{}
	known := map[string]float64{}
	var samples []interface{}
	var evals, replayed float64
	subs := map[string]map[string]interface{}{}
	var subOrder []string
	extra := map[string]interface{}{}
	for i, f := range files {
		b, err := os.ReadFile(f)
		if err != nil {
			return err
		}
		var ev evidence
		if err := json.Unmarshal(b, &ev); err != nil {
			return fmt.Errorf("%s: %v", f, err)
		}
		if i == 0 {
			total = ev
			total.Violations = 0
			total.WallS = 0
		}
		total.Violations += ev.Violations
		if ev.WallS > total.WallS {
			total.WallS = ev.WallS
		}
		c := ev.Coverage
		evals += num(c["evaluations"])
		replayed += num(c["replayed"])
		addMap(classes, c["classes"])
		addMap(excluded, c["excluded"])
		addMap(known, c["known_findings_hit"])
		if ss, ok := c["samples"].([]interface{}); ok && len(samples) < 24 {
			for _, s := range ss {
				if len(samples) < 24 {
					samples = append(samples, s)
				}
			}
		}
		if ss, ok := c["subspaces"].([]interface{}); ok {
			for _, s := range ss {
				m, _ := s.(map[string]interface{})
				n, _ := m["name"].(string)
				if _, seen := subs[n]; !seen {
					subs[n] = m
					subOrder = append(subOrder, n)
				}
			}
		}
		for k, v := range c {
			switch k {
			case "evaluations", "distinct_nontrivial", "rule", "samples", "classes", "excluded", "subspaces", "replayed", "known_findings_hit", "exhaustive":
			default:
				if _, ok := extra[k]; !ok {
					extra[k] = v
				} else if a, ok := extra[k].(float64); ok {
					if bnum, ok := v.(float64); ok {
						extra[k] = a + bnum
					}
				}
			}
		}
		hb, err := os.ReadFile(f + ".hashes")
		if err == nil {
			for j := 0; j+8 <= len(hb); j += 8 {
				set[binary.LittleEndian.Uint64(hb[j:])] = struct{}{}
			}
		}
	}
	var subList []interface{}
	for _, n := range subOrder {
		subList = append(subList, subs[n])
	}
	cov := map[string]interface{}{
		"evaluations":         int64(evals),
		"distinct_nontrivial": len(set),
		"rule":                total.Coverage["rule"],
		"samples":             samples,
		"classes":             classes,
		"excluded":            excluded,
		"subspaces":           subList,
		"replayed":            int64(replayed),
		"known_findings_hit":  known,
		"exhaustive":          false,
		"shards":              len(files),
	}
	for k, v := range extra {
		cov[k] = v
	}
	total.Coverage = cov
	b, err := json.MarshalIndent(total, "", " ")
	if err != nil {
		return err
	}
	os.MkdirAll(filepath.Dir(out), 0o755)
	return os.WriteFile(out, b, 0o644)
}

func num(v interface{}) float64 {
	f, _ := v.(float64)
	return f
}

func addMap(dst map[string]float64, v interface{}) {
	m, ok := v.(map[string]interface{})
	if !ok {
		return
	}
	for k, x := range m {
		dst[k] += num(x)
	}
}
