package vk

import (
	"encoding/json"
	"fmt"
	"os"
	"os/exec"
	"path/filepath"
	"runtime"
	"runtime/debug"
	"strings"
	"sync"
	"sync/atomic"
	"syscall"
	"time"

	"github.com/gobuffalo/plush/v5/lexer"
)

// Res is the outcome of one guarded call into the code under test.
type Res struct {
	Out    string
	Err    error
	Panic  interface{} // non-nil if the call panicked
	Budget bool        // the H2 lexer token budget tripped (parser loop blind to EOF)
	Stack  string
}

func (r Res) Panicked() bool { return r.Panic != nil }

// PanicSite returns a short, stable description of where a panic came from:
// the first frames inside the plush module.
func (r Res) PanicSite() string {
	var out []string
	lines := strings.Split(r.Stack, "\n")
	for i := 0; i+1 < len(lines); i++ {
		l := lines[i]
		if strings.HasPrefix(l, "github.com/gobuffalo/plush/v5") {
			fn := l
			if j := strings.LastIndex(fn, "("); j > 0 {
				fn = fn[:j]
			}
			fn = strings.TrimPrefix(fn, "github.com/gobuffalo/plush/v5")
			loc := strings.TrimSpace(lines[i+1])
			if j := strings.Index(loc, " +0x"); j > 0 {
				loc = loc[:j]
			}
			loc = filepath.Base(loc)
			out = append(out, fn+"@"+loc)
			if len(out) == 2 {
				break
			}
		}
	}
	return strings.Join(out, " < ")
}

// Safe runs f, converting a panic into a value.
func Safe(f func() (string, error)) (res Res) {
	defer func() {
		if p := recover(); p != nil {
			res.Panic = p
			if s, ok := p.(string); ok && s == lexer.VerifBudgetExceeded {
				res.Budget = true
			}
			res.Stack = string(debug.Stack())
			res.Out, res.Err = "", nil
		}
	}()
	res.Out, res.Err = f()
	return
}

func (r Res) String() string {
	switch {
	case r.Budget:
		return "NON-TERMINATION (token budget exceeded)"
	case r.Panic != nil:
		return fmt.Sprintf("PANIC %v at %s", r.Panic, r.PanicSite())
	case r.Err != nil:
		return fmt.Sprintf("error(%v)", r.Err)
	}
	return fmt.Sprintf("ok(%q)", r.Out)
}

// ---- hang watchdog -------------------------------------------------------

type watchEntry struct {
	start   time.Time
	kind    string
	c       interface{}
	cleared int // times a child showed that the case finishes when run alone
}

const (
	hangWall = 60 * time.Second  // a case normally costs microseconds
	hangCPU  = 120 * time.Second // CPU burnt by a fresh child on that one case (the heaviest legitimate case costs about 35 s)
	hangGive = 30 * time.Minute  // after this long without that much CPU the machine cannot decide: inconclusive
)

// Watch registers the case about to run; call the returned func when done.
// If a case is still running after hangWall it is re-run alone in a fresh
// subprocess and judged by that child's CPU time, never by the wall clock.
func (r *Run) Watch(kind string, c interface{}) func() {
	e := &watchEntry{start: time.Now(), kind: kind, c: c}
	r.wmu.Lock()
	r.watched[e] = struct{}{}
	r.wmu.Unlock()
	return func() {
		r.wmu.Lock()
		delete(r.watched, e)
		r.wmu.Unlock()
	}
}

func (r *Run) watchdog() {
	if os.Getenv("VERIF_REPLAY_CHILD") != "" {
		return
	}
	for {
		time.Sleep(5 * time.Second)
		var stuck *watchEntry
		r.wmu.Lock()
		for e := range r.watched {
			if time.Since(e.start) > hangWall {
				stuck = e
				break
			}
		}
		r.wmu.Unlock()
		if stuck != nil {
			r.judgeHang(stuck)
		}
	}
}

func (r *Run) judgeHang(e *watchEntry) {
	f := &Fail{Kind: e.kind, Case: e.c, Msg: "case did not return (non-termination)"}
	path := r.writeReplay(f)
	cand := strings.Replace(path, "fail-", "hang-candidate-", 1)
	os.Rename(path, cand)
	fmt.Printf("NOTE: a case has been running for %v; re-running it alone in a child: %s\n", hangWall, cand)
	cmd := exec.Command(os.Args[0], "-test.run", "^TestReplay$", "-test.timeout", "0")
	cmd.Env = append(os.Environ(), "VERIF_REPLAY_FILE="+cand, "VERIF_REPLAY_CHILD=1")
	cmd.SysProcAttr = &syscall.SysProcAttr{Pdeathsig: syscall.SIGKILL} // the child never outlives this process
	done := make(chan error, 1)
	if err := cmd.Start(); err != nil {
		fmt.Printf("INCONCLUSIVE: cannot start replay child: %v\n", err)
		os.Exit(2)
	}
	go func() { done <- cmd.Wait() }()
	// The child is judged by the CPU time it burns, read while it runs, never by the wall clock: on an overloaded
	// machine a heavy but finite case may need many minutes of wall time, and it must then be let finish.
	begin := time.Now()
	tick := time.NewTicker(time.Second)
	defer tick.Stop()
	for {
		select {
		case <-done:
			// the child finished on its own: the parent was starved, not hung. Give the case more time; only a case
			// that is cleared like this again and again makes the run inconclusive.
			os.Remove(cand)
			r.wmu.Lock()
			e.cleared++
			e.start = time.Now()
			n := e.cleared
			r.wmu.Unlock()
			if n < 5 {
				fmt.Printf("NOTE: the slow case finished when run alone (machine overloaded?); it gets another %v\n", hangWall)
				return
			}
			fmt.Printf("INCONCLUSIVE: a case is still running after %d x %v although it finishes when run alone (%s)\n", n, hangWall, cand)
			r.Finish()
			os.Exit(2)
		case <-tick.C:
			cpu := procCPU(cmd.Process.Pid)
			if cpu >= hangCPU {
				cmd.Process.Kill()
				<-done
				os.Rename(cand, path)
				r.mu.Lock()
				r.violations++
				r.mu.Unlock()
				fmt.Printf("VIOLATION property=%s replay=%s\n", r.ID, path)
				fmt.Printf("  detail: non-termination: child burnt %v CPU on this one case without returning\n", cpu)
				r.Finish()
				os.Exit(1)
			}
			if time.Since(begin) > hangGive {
				cmd.Process.Kill()
				<-done
				fmt.Printf("INCONCLUSIVE: child used only %v CPU in %v (starved?) on %s\n", cpu, hangGive, cand)
				r.Finish()
				os.Exit(2)
			}
		}
	}
}

// procCPU: user + system time a running process has used so far (all its threads), from /proc/<pid>/stat.
func procCPU(pid int) time.Duration {
	b, err := os.ReadFile(fmt.Sprintf("/proc/%d/stat", pid))
	if err != nil {
		return 0
	}
	t := string(b)
	i := strings.LastIndexByte(t, ')') // the command name may hold blanks and brackets
	if i < 0 {
		return 0
	}
	f := strings.Fields(t[i+1:])
	if len(f) < 13 {
		return 0
	}
	var ut, st int64
	fmt.Sscan(f[11], &ut) // field 14: utime, field 15: stime, in clock ticks (100 per second on Linux)
	fmt.Sscan(f[12], &st)
	return time.Duration(ut+st) * (time.Second / 100)
}

// Decode is a helper for replayers.
func Decode(raw json.RawMessage, v interface{}) *Fail {
	if err := json.Unmarshal(raw, v); err != nil {
		return &Fail{Kind: "decode", Msg: "cannot decode saved case: " + err.Error()}
	}
	return nil
}

// Parallel runs fn(i) for every i in [0,n) that belongs to this shard, on w
// goroutines (w<=0: GOMAXPROCS). fn must be safe for concurrent use.
func (r *Run) Parallel(n int64, w int, fn func(i int64)) {
	if w <= 0 {
		w = runtime.GOMAXPROCS(0)
	}
	var next int64
	var wg sync.WaitGroup
	const chunk = 256
	for k := 0; k < w; k++ {
		wg.Add(1)
		go func() {
			defer wg.Done()
			for {
				lo := atomic.AddInt64(&next, chunk) - chunk
				if lo >= n {
					return
				}
				hi := lo + chunk
				if hi > n {
					hi = n
				}
				for i := lo; i < hi; i++ {
					if r.Mine(i) {
						fn(i)
					}
				}
			}
		}()
	}
	wg.Wait()
}
