#!/usr/bin/env python3
"""mkreplay.py <PROPERTY> <name> <kind> '<case json>' [msg] -- write a committed regression replay file"""
import json, os, sys
pid, name, kind, case = sys.argv[1:5]
msg = sys.argv[5] if len(sys.argv) > 5 else ""
d = os.path.join(os.path.dirname(os.path.dirname(os.path.abspath(__file__))), "replays", pid)
os.makedirs(d, exist_ok=True)
json.dump({"property": pid, "kind": kind, "msg": msg, "case": json.loads(case)}, open(os.path.join(d, name + ".json"), "w"), indent=1)
print(os.path.join(d, name + ".json"))
