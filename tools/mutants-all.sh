#!/bin/bash
# tools/mutants-all.sh [--suite]: run every mutants/<id>-*.patch against its property's quick check; writes mutants/RESULTS.md
cd /verif
out=mutants/RESULTS.md
echo "| mutant | property | repository suite | quick check |" > $out.tmp
echo "|---|---|---|---|" >> $out.tmp
for p in mutants/c*.patch; do
  b=$(basename $p .patch); id=$(echo ${b%%-*} | tr a-z A-Z)
  res=$(tools/mutant.sh $p $id quick $1 2>&1)
  suite=$(echo "$res" | grep -o "suite: [A-Z]*" | head -1 | sed 's/suite: //')
  rc=$(echo "$res" | grep -o "exit [0-9]*$" | tail -1)
  [ -z "$rc" ] && rc=$(echo "$res" | grep -o "MUTANT-DOES-NOT-COMPILE\|patch does not apply" | head -1)
  case "$rc" in "exit 1") v="killed (exit 1)";; "exit 0") v="SURVIVED (exit 0)";; "exit 2") v="inconclusive (exit 2)";; *) v="$rc";; esac
  echo "| $b | $id | ${suite:--} | $v |" >> $out.tmp
  echo "$b $id ${suite:--} $v"
done
mv $out.tmp $out
