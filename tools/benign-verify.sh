#!/bin/bash
# tools/benign-verify.sh <ID> [check ids... | all]: take the property-preserving changes an independent agent delivered in
# /tmp/benign-<ID>/_deliver/patch-K.diff, confirm each builds and passes the repository's suite on a scratch copy,
# and run quick checks against it (default: the check of <ID>). Expect exit 0. Stores benign/<ID>-K/{patch.diff,notes.md,meta.json}.
id="$1"; shift; checks="$@"; [ -n "$checks" ] || checks=$id
[ "$checks" = all ] && checks=$(seq -f 'C%02g' 1 20)
rnd="${BENIGN_ROUND:-}"; src=/tmp/benign$rnd-$id/_deliver
export GOFLAGS=-mod=mod GOPROXY=off GOSUMDB=off GOTOOLCHAIN=local
for p in $src/patch-*.diff; do
  [ -s "$p" ] || continue
  k=$(basename $p .diff); k=${k#patch-}
  work=$(mktemp -d /tmp/bv-XXXXXX)
  rsync -a --exclude .git --exclude _deliver ${BENIGN_BASE:-/repo}/ $work/repo/
  if ! (cd $work/repo && git apply $p 2> $work/apply.err); then echo "$id-$k: patch does not apply"; rm -rf $work; continue; fi
  (cd $work/repo && go build ./... > $work/build.log 2>&1); b=$?
  (cd $work/repo && go test -vet=off -count=1 ./... > $work/suite.log 2>&1); s=$?
  dest=/verif/benign/$id-${rnd:+r$rnd-}$k; mkdir -p $dest; cp $p $dest/patch.diff; cp $src/notes.md $dest/notes.md 2>/dev/null
  res="{}"
  for c in $checks; do
    (cd /verif && VERIF_REPO=$work/repo VERIF_EVIDENCE_DIR=$work/ev VERIF_FAIL_DIR=$dest/fails-$c ./check $c quick > $work/check-$c.txt 2>&1); rc=$?
    first=$(grep -m1 "  detail:" $work/check-$c.txt | cut -c1-300)
    [ $rc -ne 0 ] && cp $work/check-$c.txt $dest/check-$c.txt || rm -rf $dest/fails-$c
    echo "$id-$k: build=$b suite=$s check $c quick -> exit $rc $first"
    res=$(python3 -c "import json,sys; d=json.loads(sys.argv[1]); d[sys.argv[2]]=int(sys.argv[3]); print(json.dumps(d))" "$res" "$c" "$rc")
  done
  python3 - "$id" "$k" "$b" "$s" "$res" "$dest" <<'PY'
import json,sys,subprocess,os
id,k,b,s,res,dest=sys.argv[1:7]
head=subprocess.run(['git','-C','/repo','rev-parse','--short','HEAD'],stdout=subprocess.PIPE,text=True).stdout.strip()
p=dest+'/meta.json'
m=json.load(open(p)) if os.path.exists(p) else {}
m.update({"property":id,"kind":{"1":"refactor","2":"permitted behaviour change","3":"performance change with managed state"}.get(k,k),
  "base_commit":head,"build_exit":int(b),"suite_exit":int(s)})
m.setdefault("checks_quick_exit",{}).update(json.loads(res))
json.dump(m,open(p,'w'),indent=1)
PY
  rm -rf $work
done
