#!/bin/bash
# tools/benign-all.sh [patch-dir-names...]: run EVERY property's quick check against every stored property-preserving change
# (benign/<ID>-K/patch.diff), applied to a scratch copy of the base the changes were written against
# (meta.json base_commit, exported from /repo's history; BENIGN_BASE=<dir> overrides). Expect exit 0 everywhere; anything else is listed for triage. Writes benign/CROSS.md.
cd /verif
export GOFLAGS=-mod=mod GOPROXY=off GOSUMDB=off GOTOOLCHAIN=local
names="$@"; [ -n "$names" ] || names=$(ls benign | grep -E '^C[0-9]+-' | sort -V)
checks=${BENIGN_CHECKS:-$(seq -f 'C%02g' 1 20)}
export checks
one() {
  name=$1
  work=$(mktemp -d /tmp/ba-XXXXXX)
  # the base is the commit the change was written against (meta.json base_commit), exported from /repo's history;
  # BENIGN_BASE=<dir> uses a directory instead (e.g. /repo itself, to try the change on the current tree)
  if [ -n "$BENIGN_BASE" ]; then rsync -a --exclude .git --exclude _deliver $BENIGN_BASE/ $work/repo/
  else bc=$(python3 -c "import json;print(json.load(open('/verif/benign/$name/meta.json'))['base_commit'])"); mkdir -p $work/repo; git -C /repo archive $bc | tar -x -C $work/repo; fi
  if ! (cd $work/repo && git apply /verif/benign/$name/patch.diff 2>/dev/null); then echo "$name does-not-apply"; rm -rf $work; return; fi
  line="$name"
  for c in $checks; do
    VERIF_REPO=$work/repo VERIF_EVIDENCE_DIR=$work/ev VERIF_FAIL_DIR=$work/fails-$c nice -n 5 ./check $c quick > $work/out-$c.txt 2>&1; rc=$?
    line="$line $c=$rc"
    if [ $rc -ne 0 ]; then mkdir -p /verif/.build/cross; cp $work/out-$c.txt /verif/.build/cross/$name-$c.txt; fi
  done
  echo "$line"
  rm -rf $work
}
export -f one
out=/verif/.build/cross-results.txt; mkdir -p /verif/.build
printf '%s\n' $names | xargs -P ${BENIGN_JOBS:-3} -I{} bash -c 'one {}' | tee -a $out
