#!/bin/bash
# tools/mutant.sh <patch> <ID> [tier] [--suite] [--keep-replays]
# Applies a patch to a SCRATCH COPY of /repo (never to /repo itself), runs the check against that copy and removes it.
# With --suite also runs the repository's own tests on the mutant. Safe to run concurrently with other work.
patch="$(realpath "$1")"; id="$2"; tier="${3:-quick}"
export GOFLAGS=-mod=mod GOPROXY=off GOSUMDB=off GOTOOLCHAIN=local
work=$(mktemp -d /tmp/mut-XXXXXX) || exit 9
trap 'rm -rf "$work"; rm -f /verif/.build/*-alt$$.test /verif/.build/alt-$$.mod /verif/.build/alt-$$.sum' EXIT
rsync -a --exclude .git /repo/ "$work/repo/"
cd "$work/repo" || exit 9
if ! git apply "$patch" 2>"$work/apply.err"; then
  # older patches carry context that unrelated repairs have since touched: let patch(1) place them with a little fuzz
  if patch -p1 --fuzz=2 -s -f --no-backup-if-mismatch < "$patch" >"$work/apply2.err" 2>&1; then find . -name '*.orig' -delete
  else echo "patch does not apply: $patch"; cat "$work/apply.err"; exit 9; fi
fi
if ! go build ./... ; then echo "MUTANT-DOES-NOT-COMPILE"; exit 8; fi
if [[ "$*" == *--suite* ]]; then
  if go test -vet=off -count=1 -timeout 120s ./... >"$work/suite.log" 2>&1; then echo "suite: PASS (mutant survives the repository tests)"; else echo "suite: FAIL (mutant is caught by the repository tests)"; grep -E "^(--- FAIL|FAIL|panic)" "$work/suite.log" | head -5; fi
fi
cd /verif
VERIF_REPO="$work/repo" VERIF_EVIDENCE_DIR="$work/ev" VERIF_FAIL_DIR="$work/fails" ./check "$id" "$tier" > "$work/out.txt" 2>&1; rc=$?
grep -E "^(VIOLATION|  detail|INCONCLUSIVE|BUILD|HARNESS)" "$work/out.txt" | head -6
if [ $rc -eq 2 ]; then tail -15 "$work/out.txt"; fi
if [[ "$*" == *--keep-replays* ]]; then rm -rf /verif/.build/mutant-fails; cp -r "$work/fails" /verif/.build/mutant-fails 2>/dev/null; fi
echo "check $id $tier on $(basename "$patch"): exit $rc"
exit 0
