#!/bin/bash
# tools/mutant.sh <patch> <ID> [tier] [--suite] : apply a patch to /repo, run the check, always revert.
# prints the check's exit code; with --suite also runs the repository's own tests on the mutant.
patch="$(realpath "$1")"; id="$2"; tier="${3:-quick}"
export GOFLAGS=-mod=mod GOPROXY=off GOSUMDB=off GOTOOLCHAIN=local
cd /repo || exit 9
if ! git diff --quiet; then echo "/repo has uncommitted changes; refusing"; exit 9; fi
if ! git apply "$patch"; then echo "patch does not apply: $patch"; exit 9; fi
trap 'cd /repo && git checkout -- . && git clean -fdq' EXIT
if ! go build ./... ; then echo "MUTANT-DOES-NOT-COMPILE"; exit 8; fi
if [[ "$*" == *--suite* ]]; then
  if go test -vet=off -count=1 ./... >/tmp/mutant-suite.log 2>&1; then echo "suite: PASS (mutant survives the repository tests)"; else echo "suite: FAIL (mutant is caught by the repository tests)"; grep -E "^(--- FAIL|FAIL)" /tmp/mutant-suite.log | head -5; fi
  rm -f /tmp/mutant-suite.log
fi
cd /verif && ./check "$id" "$tier" > .build/mutant-out.txt 2>&1; rc=$?
grep -E "^(VIOLATION|  detail|INCONCLUSIVE|BUILD|HARNESS)" .build/mutant-out.txt | head -6
echo "check $id $tier on $(basename $patch): exit $rc"
rm -f /verif/replays/$id/fail-*.json
exit 0
