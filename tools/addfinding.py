#!/usr/bin/env python3
"""addfinding.py <id> <property> <commit-subject-grep> <kind> '<witness json>' <what failed>  -- append a FIXED finding"""
import json, subprocess, sys
fid, prop, grep, kind, wit, what = sys.argv[1:7]
h = subprocess.run(['git','-C','/repo','log','--format=%h','-F','--grep',grep],stdout=subprocess.PIPE,text=True).stdout.split()
assert h, "no commit matches"
p='/verif/known_findings.json'
d=json.load(open(p))
d['findings']=[f for f in d['findings'] if not (f['id']==fid and f['property']==prop)]
d['findings'].append({"id":fid,"status":"fixed","property":prop,"commit":h[0],
  "line":"fixed: property=%s %s %s"%(prop,h[0],what),"what":what,"kind":kind,"witness":json.loads(wit)})
json.dump(d,open(p,'w'),indent=1)
print(fid,prop,h[0])
