#!/bin/bash
# tools/revertcheck.sh <commit-subject-grep> <ID> [tier]: revert that fix commit in a scratch copy and run the check (must exit 1)
h=$(git -C /repo log --format=%h -F --grep "$1" | head -1)
[ -n "$h" ] || { echo "no commit matches $1"; exit 9; }
git -C /repo diff $h $h~1 > /verif/.build/revert-$h.patch
/verif/tools/mutant.sh /verif/.build/revert-$h.patch "$2" "${3:-quick}" | tail -1 | sed "s/revert-$h.patch/revert of $h ($1)/"
rm -f /verif/.build/revert-$h.patch
