#!/usr/bin/env python3
"""Regenerates /verif/MANIFEST.json from the table below (kept in one place so the
manifest is always schema-valid and in step with what is built)."""
import json, os, subprocess
ROOT = os.path.dirname(os.path.dirname(os.path.abspath(__file__)))

# id -> (technique, level text, level note, design ref)
CHECKS = {
 "C03": ("exhaustive small-scope token sequences + rapid token soup / template mutation / deep nesting + native go fuzz; totality oracle (no panic, lexer token budget, CPU-time watchdog)",
         "Exploration: every token sequence up to length 3 (quick: 2) over a 58-spelling vocabulary in 12 tag framings, every prefix/suffix of 277 harvested templates, tens of thousands of random soups/mutants/nestings and (thorough) coverage-guided fuzzing all parse to a value or an error. Totality over all strings cannot be shown by testing; this is the densest search of the short-input space we can run.",
         "Trusts the H2 token budget (verif tag) as the non-termination detector for token-pulling loops, Go's recover for panics, inputs capped at 4 KiB.",
         "DESIGN.md §4 C03"),
 "C20": ("exhaustive small-alphabet strings x sizes x trails + rapid payload strings / recursive JSON values; validity-predicate and round-trip oracles",
         "Exploration: truncate is checked on every string of <=5 symbols over a 5-symbol multi-byte/invalid alphabet x 11 sizes x 5 trails and on tens of thousands of random payloads; the escapers on every byte, fixed hostile payloads and random payloads, directly and through templates; toJSON on a recursive generator with decode-back.",
         "Trusts html.UnescapeString / encoding/json as decoders; 'character' = rune.",
         "DESIGN.md §4 C20"),
 "C19": ("exhaustive small-range + int-extreme argument enumeration, rapid random arguments; math/big reference interval, partition-law validity predicate, differential between the two groupBy implementations",
         "Exploration: every a,b,n in [-8,8] and every combination of 7 int extremes per argument position walk in lock-step with a math/big model (<=64 steps, so termination is decided without running 2^63 steps); groupBy for all lengths 0..40 x n in [-2,12] x 4 element types x 4 container forms against the partition laws and against the second implementation; len against Go's len.",
         "An iterator agreeing with the model for 64 steps on a longer interval is accepted without being run to its end.",
         "DESIGN.md §4 C19"),
 "C10": ("explicit-state enumeration of all short New/Set histories + rapid long random histories; chain-of-maps reference model read out after every step",
         "Exploration: every history of length <=5 (quick: 4) over <=4 contexts, 3 keys (one a built-in helper name), values {1,2,nil} and 6 root constructors is executed against the real Context and a reference model, comparing Value and Has for every (context,key) pair after every step; plus thousands of random histories of up to 300 operations.",
         "Sequential histories only; functions compared by code pointer.",
         "DESIGN.md §4 C10"),
 "C06": ("exhaustive depth<=2 expression trees + rapid type-directed trees to depth 5; independent reference evaluator (math/big integers), three parenthesisations, recorded evaluation order",
         "Exploration: every leaf pair x operator, every depth-2 tree in both association shapes over mixed and homogeneous leaf pools, and >100k random type-directed trees are rendered with minimal and full parentheses; the captured typed value, the operand evaluation order and error-ness must equal an independent reference evaluator built from the property statement.",
         "The reference evaluator is the trusted base; cases whose meaning the statement does not fix are counted as excluded:unspecified.",
         "DESIGN.md §4 C06"),
 "C07": ("exhaustive truth-table matrix (53 value kinds x 18 test positions) and exhaustive if/else-if/else chains with recording conditions; rapid nested chains against the reference interpreter",
         "Exploration: the whole kind x position matrix and every chain of <=4 branches over 9 condition values x else x 5 placements are enumerated; output must be the first truthy branch and the recorded condition evaluations exactly the prefix up to it; random nested chains with ! && || are compared with the reference interpreter.",
         "Truth table taken from the property statement; typed-nil slices/maps/funcs are outside it.",
         "DESIGN.md §4 C07"),
 "C08": ("exhaustive iterable-kind x length x fixed-body sweep + rapid random loop bodies; reference interpreter (loop unrolling), map visiting order read off the output",
         "Exploration: 21 iterable kinds x lengths 0..6 x 21 bodies that place break/continue at every interesting position (after nested loops, after function literals, inside emitting ifs after text, two ifs deep) x one/two loop variables, plus random bodies nested to depth 2, must render exactly what the reference interpreter says; nil renders nothing, non-iterables fail.",
         "The reference interpreter is the trusted base; silent ifs in loop bodies carry control statements only; return inside loops not covered.",
         "DESIGN.md §4 C08"),
 "C16": ("rapid-generated decision-chain functions x argument tuples (incl. caller variables named like the parameters) x 12 use sites, two layouts, plus fixed programs (recursion, higher-order); reference interpreter",
         "Exploration: generated functions of 0-4 parameters with if/else-if/else decision chains to depth 3 and unique return labels are called with literal, variable and namesake arguments and their result is emitted, stored, compared, tested, concatenated, passed on and emitted inside blocks; the output must equal the reference interpreter's (caller-scope arguments, fresh scope, first return wins).",
         "Reference interpreter is the trusted base; function bodies are closed so lexical and dynamic scoping agree; loops inside function bodies not covered.",
         "DESIGN.md §4 C16"),
 "C09": ("exhaustive nestings (depth 1-3) of the five scope constructs with let/shadow/probe patterns + rapid random nestings; environment-chain reference interpreter",
         "Exploration: all 155 nestings of {for, user function, partial with data, contentFor/contentOf with data, block helper on a child context} x 4 binding patterns, and thousands of random let/probe/construct programs, render exactly what an environment-chain interpreter predicts for every probe before, inside and after each construct.",
         "Reference interpreter is the trusted base; single-iteration loops; functions defined where they are called; contentFor/Of in one scope.",
         "DESIGN.md §4 C09"),
 "C05": ("fault injection at enumerated syntactic positions + rapid random programs with planted faults (shared all-constructs generator); instrumented failing helper with errors.Is, reference interpreter for reached/tolerated positions",
         "Exploration: five fault kinds are planted at ~60 syntactic positions each and at random leaves of thousands of generated programs; whenever the instrumented helper was invoked the render must fail with an error that Is the original and with empty output, and - both directions - the render fails exactly when the reference interpreter says a fault is evaluated outside the tolerated positions.",
         "Reference interpreter decides reachability (short-circuit, untaken branches, uncalled functions) and the tolerated positions.",
         "DESIGN.md §4 C05"),
 "C12": ("exhaustive signature x call-shape enumeration with reflect.MakeFunc recording helpers + rapid random pairs; reference binder written from the statement, differential on received values / invocation count / evaluation order",
         "Exploration: every parameter-slot type x argument kind, an arity matrix over 0-3 fixed parameters x 12 tails x 12 result shapes, the full product of 684 signatures with every call of <=2 (thorough <=3) arguments of 18 kinds, with and without a block; the recorded invocation (values received, HasBlock/Block, evaluate-once left-to-right order) must equal what a reference binder derives from the statement, errors must name the call and leave the function uninvoked.",
         "Calls that omit non-auto trailing parameters or have too few arguments are counted as unspecified, not asserted.",
         "DESIGN.md §4 C12"),
 "C02": ("exhaustive short strings against an independent reference text scanner + exhaustive string-literal values + rapid segment sequences with an entity-decoding output matcher + native go fuzz of the text scanner",
         "Exploration: every string of <=6 symbols over {a \\ < % > = # \"} that the reference scanner classifies as literal text in 6 frames, every string value of <=5 symbols over a 9-symbol alphabet as double- and back-quoted literal, and random interleavings of text, output tags, 21 kinds of silent tags and comments at top level and nested in if/else/for/function/block-helper bodies must render to exactly the expected part list.",
         "NUL and >=3 backslashes before <% are outside the statement; the reference scanner and the matcher are the trusted base.",
         "DESIGN.md §4 C02"),
 "C01": ("exhaustive base x wrap x sink x tag route sweep over fixed hostile payloads + rapid route compositions to depth 4 with random payloads; entity-decoding output matcher (validity predicate)",
         "Exploration: every base (17 ways a value reaches a template) and every single wrap x 20 emission sinks x 4 type tags x 20 payloads, 7 whole-collection sinks, and ~100k random compositions of up to 4 wraps with random payloads over the full byte alphabet; plain payloads must appear only entity-encoded and decode back exactly once, trusted payloads byte-identical exactly once.",
         "The matcher accepts any correct entity spelling; helpers written for the test return template.HTML of their block.",
         "DESIGN.md §4 C01"),
 "C15": ("exhaustive failure-kind x nesting-context x prefix x gap x suffix x layout tables + rapid random prefixes; line-of-failing-tag oracle and metamorphic shift-by-k relation",
         "Exploration: 74 failure kinds (runtime and every syntax-error family) x 8 nesting contexts x 27 prefixes (text, tags, multi-line strings and comments, CRLF) x gaps x suffixes x tag layouts; every error must start with 'line N:' (each message line of a parse error), N must be the failing tag's line (within its span when it is multi-line) and prepending k newlines must turn every N into N+k and change nothing else; both Parse and Render.",
         "Exact N only for single-line failing tags; continuation tags (else-if) accept the span from the opening tag; templates that return no error are counted as excluded.",
         "DESIGN.md §4 C15"),
 "C17": ("exhaustive configuration matrix and contentFor/contentOf operation sequences + rapid random composition trees; metamorphic inline-equivalence oracle (splice of independently rendered parts, textual inlining for data-free cases), recording block helper",
         "Exploration: 4 content types x 4 extensions x 9 layout modes x 9 bodies x 4 data maps, every sequence of <=3 (thorough 4) contentFor/contentOf operations x 3 placements, and thousands of random trees of partials (depth 3), layouts, stored blocks and block helpers: the composed render must equal, byte for byte, the render in which every composition is replaced by an independently rendered, unescaped, exactly-once splice (JS-escaped once where the content type demands), and errors must agree.",
         "What a layout sees of the partial's data and the definition-vs-use scope of stored blocks are not fixed by the statement and are not generated.",
         "DESIGN.md §4 C17"),
 "C04": ("exhaustive kind matrices over a 99-value pool (operators, index read/write, members, iteration, calls, every built-in helper x argument kinds, emit/let/assign/if) + rapid random well-formed programs + native go fuzz of the evaluator (FuzzRender, whole pool bound); totality oracle with panics grouped by root cause (first plush frames + normalised message)",
         "Exploration: seven matrices (~0.6M cells quick, 4.5M thorough) over 99 pool values covering every kind the statement lists, plus 20k-150k random programs per run; each render must return output or an error, never a panic; a panic is reported once per root cause with its smallest witness.",
         "Fatal stack overflows cannot be recovered and surface as an inconclusive run (exit 2), not as a VIOLATION; unbounded template recursion is not generated; range/between/until are iterated with small arguments only.",
         "DESIGN.md §4 C04"),
 "C18": ("metamorphic re-layout: enumerated and rapid-drawn layout decision vectors (token separators incl. line comments, comment tags, tag merging / cutting, semicolons) over fixed programs and random all-construct programs; canonical layout as baseline, reference interpreter as cross-check",
         "Exploration: 9 fixed programs x 2 printers x 2 modes x 600 (quick 150) enumerated decision vectors and thousands of random programs, each re-laid-out with random separators from {spaces, tab, newline, CRLF, # comments (also containing %>), nothing}, comment tags between tags, merged and cut silent tags and semicolons; the variant must render exactly what the canonical layout renders (or the same error modulo line numbers).",
         "The re-layout tokenizer understands what model.Printer prints; the stated exceptions (- and . in identifiers, statements starting with ( or [, # directly after <%) are excluded by construction.",
         "DESIGN.md §4 C18"),
 "C13": ("stateful histories (rapid) over 1-3 generated templates x 8 execution routes (re-exec, fresh parse, clone, cache off / cold / warm, cached object) + exhaustive sweep of harvested templates and hash-literal snippets; metamorphic 'same as first result' oracle incl. helper invocation trace, deep structural hash of the parsed program around every Exec (hook H1)",
         "Exploration: every harvested template and 9 hash-literal snippets (repeated 30-200 times, since map-order dependence shows with probability < 1) through all 8 routes twice, and thousands of random histories over random all-construct programs with side-effecting hash literals and duplicate keys; every (output, normalised error, helper trace) must equal the first one for that template and the program's structural hash must not change.",
         "Schedules are sequential (C14 covers concurrency); equal data = same constructors re-run; for over maps excluded as the licensed variation.",
         "DESIGN.md §4 C13"),
 "C14": ("race-detector build; enumerated and rapid-generated concurrent scenarios (shared template x G goroutines x context mode x cache mode; concurrent Parse/Render with the cache on; random reader/writer mixes on one context); sequential-equivalence oracle + Go race detector (halt on first report, last noted case = replay)",
         "Exploration under the race detector: 7 fixed snippets x G in {2..32} x {own root, child of a shared parent} x cache {off (the same *Template and Clones), cold, warm}, plus random all-construct templates, concurrent Parse/Render of equal and different texts, and random Set/Value/Has/New/Exec mixes on one shared context; any race report is a violation and every concurrent result must equal the sequential one.",
         "Schedules are not controlled or enumerated: 'no race and no divergence in the executions that happened'. A logic race between two individually synchronised operations is caught only if it changes an output. Shared context data is read-only.",
         "DESIGN.md §4 C14"),
 "C11": ("reflection-driven enumeration of all type-graph walks up to 4 steps (+ a deep indexed sub-space) and rapid walks to 7+ steps over self-describing data graphs; differential against a reflection walk of the same path (exact / clean failure / wrong value or panic)",
         "Exploration: every path of <=4 steps (quick: <=3 and every 5th of 4) over a Root/Mid/Leaf type family with value and pointer fields, nil pointers, slices, arrays, string- and int-keyed maps, interface fields, value/pointer methods, each used as emit, emit twice, let at every cut, for at every index step, with literal and variable indexes, plus deliberately broken paths; every leaf string spells its own Go path, so a completable path must render exactly that spelling and a broken one must fail cleanly - never another element's value, never a panic.",
         "Go reflection navigation is the reference; pointer-receiver methods on unaddressable values, string indexing and paths ending at a struct are unspecified and not asserted.",
         "DESIGN.md §4 C11"),
}


# what the seeded rounds and the helper agents' widening passes added to each check (mirrors DESIGN.md §4 'Added later')
ADDED = {'C01': 'one output tag emitting trusted and untrusted values in turn; block bodies that are one bare output tag; after the helper-agent pass: 45 bases (promoted / embedded / interface- and pointer-typed fields, nested collections, collections of `template.HTML` / HTMLer, helpers returning `(string, error)` / slices / structs), *weak* bases (`*string`, named string types, `Interface()` wrappers: asserted only "escaped like its tag or not printed, never verbatim"), 28 wraps, 62 sinks (else-if, `continue` / `break` after the tag in slice / map / iterator loops, blocks executed twice, `BlockWith` arguments, the built-in `debug` helper, trust alternating through one block / partial / function), phase N (the tag inside up to 4 nested block constructs, exhaustive to depth 2) and phase H (one parsed template executed 2–5 times while the payload\'s type and text change, also through the cache).',
 'C02': 'E1 with four kinds of neighbouring tag and 7 more block frames; E3 every ordered pair of two short string literals in one template; E4 every short comment body in 7 frames; E5 every ordered pair (quick: also triples) of 34 representative segments in 12 surroundings; E6 depth and width (7 nesting kinds to depth 1500 [5000], 20 000 tags in a row, 1 MiB of text); R1 random raw bytes with tags inserted; every segment case is also parsed once and executed three times with other values, and every output is compared only after an unrelated longer render (aliased buffers).',
 'C04': "the pool grew to ~370 values (slices / arrays / maps of interfaces, keys that are comparable by type but not by value, NaN keys, embedded interfaces and unexported structs, pointer chains and cycles, library types, plush's own types, ~95 more function signatures, values that contain themselves - rendered in a child process), nine more matrices (assignment targets, index / call chains, odd loop bodies, prefix operators, other context implementations, shared data maps, re-execution, sweeps) and `endless` (programs that never end on their own: recursion of functions, stored blocks, partials).", 'C05': 'fault kind `helper error wrapping an unknown-identifier error`; fault positions in map- and iterator-loop bodies; comparison with the reference up to entity spelling.',
 'C06': 'floats whose printed form has an exponent; SEQUENCES: one expression over `p`, `q` evaluated 2–4 times in one render (function called per operand pair / loop over pairs) with operand kinds changing - every ordered pair (A, B) of 21 operand pairs that have a value evaluated A, B, A for all 13 operators, value pair then error pair, random shapes.',
 'C07': 'arithmetic / concatenation conditions; names tested while unknown and bound later; nil slices / maps / funcs (truthy); SWEEPS: one set of six test sites evaluated for several values in turn (loop body / function body), every ordered pair of 44 passable kinds as A, B, A.',
 'C08': 'inner loops reusing outer names; collections holding nil with top-level variables named like the loop variables; after the helper-agent pass 68 iterable kinds (zero-valued elements, bool / uint8 / array / struct / pointer / interface / NaN keys told apart by value markers, named types, `*map`, elements that are themselves iterable, loop heads naming the iterable through fields / methods / index / calls, value-receiver and func-kind iterators), ~57 fixed bodies, compact layout, 6 alternative variable name sets, lengths 17…257, one parsed template executed as A, B, A, six nesting shapes to depth 1500 [5000], a wrapping `hctx.Context`.',
 'C09': 'constructs entered twice; stored blocks replayed in deeper scopes; every stored block and partial used a second time without data.',
 'C11': 'one path evaluated repeatedly with a changing inner index (sweeps); after the helper-agent pass a recursive Node family (every hop sequence of length ≤ 3 × 4 tails, long paths), an Ext family (embedded structs, 2–3 consecutive indexes, JSON-like nests, heterogeneous slices, named slice / map types with methods, pointer to array), arguments renamed after members used earlier in the path, one parsed template re-executed against data of the other recipe, bulk (1100 evaluations in one render).',
 'C12': 'one call site executed for 2–3 signatures; the recorder writes into every empty options map it receives; after the helper-agent pass more parameter types, 18 more argument kinds, 21 result shapes, six ROUTES to the function (name, pointer, slice element, map value, method through pointer / value), four USES of the value, TREES (several calls in one template: sequences, calls as arguments of calls with blocks, calls inside blocks three deep, inside loops entered several times, loops of 550–1100 iterations).',
 'C13': 'prepended cache-buster; self-including partial; same partial name with different feeder text.',
 'C14': 'data values that differ per execution; page + layout executed on one context per goroutine; assignment to names that live in the shared parent.',
 'C15': '`<%#` directly followed by a newline; forgiven failures in earlier statements and in the same statement as the failing expression; a message may span lines.',
 'C16': 'same-function calls and nil in argument position; call sequences over 2–3 functions (direct, higher-order, parameter named like a called function, rebound aliases); recursion that reads parameters and lets after the inner call returned.',
 'C17': 'the data map held in a variable and used by two calls (partial and contentOf); after the helper-agent pass directory parts and double extensions in names, content types with parameters, a second call of the same partial with other data, five block-helper variants (block twice / never / `BlockWith` with data / after an argument / as a method), calls in silent tags, `let r = CALL` inserted twice, a leak sensor after contentOf, 16 content operations, boundaries (empty bodies, yield-only layouts, one call site executed 1100 times), each random tree also rendered twice through the cache.',
 'C18': 'several line comments in a row; operators glued to their operands; source-level programs with spellings the printer never produces (numbers with a leading dot).',
 'C19': 'slices with spare capacity; arrays among the `len` arguments.',
 'C20': '2–4 helper results held while later calls run (Go values, let bindings, block parts); NUL may be dropped by htmlEscape.'}

# notes that replace the first-version notes where the checks outgrew them
NOTES = {
 'C03': "Trusts the H2 token budget (verif tag) as the non-termination detector for token-pulling loops and Go's recover for panics; enumerated inputs up to 64 KiB, plus the hostile-size phase (megabytes of nesting / openers / comments). A fatal stack overflow kills the test process: exit 2, not a VIOLATION.",
 'C04': "A fatal stack overflow or a runaway allocation cannot be recovered in-process: cases that mention a value that contains itself, and the programs that never end on their own, are rendered in a child process whose death is reported as a failure; anything else of that kind surfaces as an inconclusive run (exit 2). range/between/until are iterated with small arguments only.",
 'C07': "Truth table taken from the property statement; the zero values of slice, map and func types count as 'every other value' (truthy); five kinds the statement is silent about are checked for uniformity only.",
}

NOT_BUILT = "check not built yet in this session (see DESIGN.md §4 for its plan); will be claimed once its check is committed"

def main():
    props = [json.loads(l)["id"] for l in open(os.path.join(ROOT, "properties.jsonl"))]
    hooks = subprocess.run(["git", "-C", "/repo", "log", "--format=%H %s"], stdout=subprocess.PIPE, text=True).stdout.splitlines()
    hook_commits = [l.split()[0] for l in hooks if "verif hook" in l]
    m = {
     "version": 1,
     "setup_cmd": "./check setup",
     "hooks": {
       "guard": "verif",
       "enable": "go build tag: every check builds its test binary with `go test -c -tags verif` in /verif/harness, whose go.mod has `replace github.com/gobuffalo/plush/v5 => /repo`",
       "baseline_off_cmd": "cd /repo && GOFLAGS=-mod=mod GOPROXY=off GOSUMDB=off GOTOOLCHAIN=local go test -vet=off -count=1 ./...",
       "source_commits": hook_commits,
       "add_only": True,
     },
     "engines": [{"name": "harness", "path": "harness", "serves_properties": sorted(CHECKS),
                  "kind_free_text": "Go module: one test package per property (rapid v1.3.0 generators + exhaustive small-scope loops + native go fuzz), shared kit internal/vk; driven by ./check"}],
     "checks": [],
     "notes": "Exit codes of ./check: 0 held, 1 VIOLATION, 2 inconclusive (build error, harness budget, harness defect). known_findings.json lists fixed and open findings; open ones print KNOWN-FINDING and are excluded by generator class.",
     "not_applicable": [],
    }
    for pid in props:
        if pid in CHECKS:
            tech, text, note, ref = CHECKS[pid]
            if pid in ADDED:
                text += " Added since the first version: " + ADDED[pid]
                tech += "; widened by four rounds of independently seeded breaking changes and a helper-agent pass (see DESIGN.md §4 'Added later', §7)"
            note = NOTES.get(pid, note)
            m["checks"].append({
              "property_id": pid,
              "quick_cmd": "./check %s quick" % pid,
              "thorough_cmd": "./check %s thorough" % pid,
              "evidence_file": "/verif/evidence/%s.json" % pid,
              "replay_cmd_template": "./check %s replay {path}" % pid,
              "engine": "harness",
              "level_claimed": {"category": "exploration", "text": text, "design_ref": ref},
              "level_note": note,
              "technique": tech,
            })
        else:
            m["not_applicable"].append({"property_id": pid, "reason": NOT_BUILT})
    json.dump(m, open(os.path.join(ROOT, "MANIFEST.json"), "w"), indent=1)
    print("MANIFEST.json: %d checks, %d not claimed" % (len(m["checks"]), len(m["not_applicable"])))

if __name__ == "__main__":
    main()
