#!/bin/bash
# tools/seedverify.sh <ID> [check ids...]: verify a seeded change delivered in /tmp/seed-<ID>/_deliver and run checks against it.
# 1. scratch copy of /repo + patch: builds, repository suite passes; demo fails with the patch and passes without.
# 2. runs the quick check of <ID> (and of any further ids given) against the patched copy.
# Writes /verif/seeded/<id>/{patch.diff,seeded_demo_test.go,notes.md,meta.json}
id="$1"; shift; others="$@"
rnd="${SEED_ROUND:-}"; src=/tmp/seed$rnd-$id/_deliver; dest=/verif/seeded/$id${rnd:+-$rnd}
[ -f $src/patch.diff ] || { echo "no delivery for $id"; exit 9; }
export GOFLAGS=-mod=mod GOPROXY=off GOSUMDB=off GOTOOLCHAIN=local
work=$(mktemp -d /tmp/sv-XXXXXX); trap 'rm -rf "$work"' EXIT
rsync -a --exclude .git --exclude _deliver /repo/ $work/repo/
cd $work/repo
pkg=$(grep -m1 '^package ' $src/seeded_demo_test.go | awk '{print $2}')
case "$pkg" in plush|plush_test) dir=. ;; *) dir=$(find . -type d -name "${pkg%_test}" | head -1) ;; esac
[ -n "$dir" ] || dir=.
# without the patch: demo must pass
cp $src/seeded_demo_test.go $dir/seeded_demo_test.go
go test $RACE -vet=off -count=1 -run "Seeded|seeded|Demo" ./$dir > $work/demo0.log 2>&1; d0=$?
rm $dir/seeded_demo_test.go
git apply $src/patch.diff 2> $work/apply.err || { echo "patch does not apply to current /repo"; cat $work/apply.err; exit 8; }
go build ./... > $work/build.log 2>&1; b=$?
go test -vet=off -count=1 ./... > $work/suite.log 2>&1; s=$?
cp $src/seeded_demo_test.go $dir/seeded_demo_test.go
go test $RACE -vet=off -count=1 -run "Seeded|seeded|Demo" ./$dir > $work/demo1.log 2>&1; d1=$?
rm $dir/seeded_demo_test.go
echo "$id: build=$b suite=$s demo_without_patch=$d0 demo_with_patch=$d1"
ok=no; [ $b -eq 0 ] && [ $s -eq 0 ] && [ $d0 -eq 0 ] && [ $d1 -ne 0 ] && ok=yes
echo "$id: seeded change verified: $ok"
results="{}"
cd /verif
for c in $id $others; do
  VERIF_REPO=$work/repo VERIF_EVIDENCE_DIR=$work/ev VERIF_FAIL_DIR=$work/fails-$c ./check $c quick > $work/check-$c.txt 2>&1; rc=$?
  first=$(grep -m1 "  detail:" $work/check-$c.txt | cut -c1-400)
  echo "$id: check $c quick -> exit $rc  $first"
  results=$(python3 -c "import json,sys; d=json.loads(sys.argv[1]); d[sys.argv[2]]={'exit':int(sys.argv[3]),'first_detail':sys.argv[4]}; print(json.dumps(d))" "$results" "$c" "$rc" "$first")
done
mkdir -p $dest
cp $src/patch.diff $src/seeded_demo_test.go $src/notes.md $dest/ 2>/dev/null
python3 - "$id" "$ok" "$b" "$s" "$d0" "$d1" "$results" "$dir" "$dest" <<'PY'
import json,sys,subprocess
id,ok,b,s,d0,d1,results,dir,dest=sys.argv[1:10]
head=subprocess.run(['git','-C','/repo','rev-parse','--short','HEAD'],stdout=subprocess.PIPE,text=True).stdout.strip()
notes=open(dest+'/notes.md').read()
meta={"property":id,"verified":ok=="yes","base_commit":head,"demo_package_dir":dir,
 "what_ran":{"go build ./... (with patch)":int(b),"go test -vet=off -count=1 ./... (with patch, exit code)":int(s),
   "demo test without patch (exit code, 0 = passes)":int(d0),"demo test with patch (exit code, non-zero = fails)":int(d1)},
 "needs_to_manifest":"see notes.md (written by the independent agent)","checks_quick":json.loads(results)}
json.dump(meta,open(dest+'/meta.json','w'),indent=1)
PY
