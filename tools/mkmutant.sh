#!/bin/bash
# tools/mkmutant.sh <name> <file-in-repo> <python-replace-old> <python-replace-new> : write mutants/<name>.patch
name="$1"; f="$2"
cd /repo || exit 9
git diff --quiet || { echo "/repo dirty"; exit 9; }
OLD="$3" NEW="$4" python3 - "$f" <<'PY'
import os,sys
p=sys.argv[1]; s=open(p).read(); old=os.environ['OLD']; new=os.environ['NEW']
assert s.count(old)>=1, "pattern not found"
open(p,'w').write(s.replace(old,new,1))
PY
[ $? -eq 0 ] || { git checkout -- .; exit 9; }
git diff > /verif/mutants/$name.patch
git checkout -- .
echo "wrote mutants/$name.patch ($(wc -l < /verif/mutants/$name.patch) lines)"
