#!/bin/bash
# tools/mkmutant.sh <name> <file-in-repo> <old text> <new text> : write mutants/<name>.patch (first occurrence replaced).
# Works on a scratch copy; /repo is never modified.
name="$1"; f="$2"
work=$(mktemp -d /tmp/mkmut-XXXXXX) || exit 9
trap 'rm -rf "$work"' EXIT
mkdir -p "$work/a/$(dirname "$f")" "$work/b/$(dirname "$f")"
cp "/repo/$f" "$work/a/$f"; cp "/repo/$f" "$work/b/$f"
OLD="$3" NEW="$4" python3 - "$work/b/$f" <<'PY' || exit 9
import os,sys
p=sys.argv[1]; s=open(p).read(); old=os.environ['OLD']; new=os.environ['NEW']
if s.count(old)<1:
    sys.stderr.write("pattern not found\n"); sys.exit(1)
open(p,'w').write(s.replace(old,new,1))
PY
(cd "$work" && diff -u "a/$f" "b/$f" > "/verif/mutants/$name.patch")
echo "wrote mutants/$name.patch ($(wc -l < /verif/mutants/$name.patch) lines)"
